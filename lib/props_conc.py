"""C10 — concurrent use is race-free, deadlock-free and linearizable."""
import os, random, re, time
from common import *
import floatvm

NOTE = ('theorems are about coq/Model/Conc.v: threads running lock/unlock programs under Go RWMutex rules; the programs are the control-flow paths of the library functions, '
        'REGENERATED from the Go AST on every run (translator/locktable.go -> coq/Gen/LockTable.v) and checked by the Coq function table_ok, so a change of the locking in the '
        'sources changes the premise of the theorems; what only the runtime can show (memory-level races, the scheduler, linearizability of the results) is observed: '
        'race-detector builds, a watchdog on calls that do not return, and a linearizability check (porcupine, per-document register model = the C01 specification) on recorded histories')

RACE = os.path.join(VERIF, 'harness', 'vharness_race')


def build_race():
    rc, o, e = sh('go build -race -tags verif -o %s .' % RACE, cwd=os.path.join(VERIF, 'harness'), env=GOENV, timeout=900)
    return rc == 0, (o + e).decode(errors='replace')


def table_report():
    """which functions of the regenerated table break the discipline (evaluated in Coq)"""
    body = ('From Coq Require Import List String.\nFrom Syz Require Import LockTable Conc.\nImport ListNotations.\n'
            'Definition bad := Eval vm_compute in map (fun x => snd (fst x)) (filter (fun x => negb (match expand lock_table fuel0 (fst (fst x)) with Some ps => forallb (wrb []) ps | None => false end)) lock_table).\nPrint bad.\n'
            'Definition bad_api := Eval vm_compute in (filter (fun f => negb (api_ok lock_table f)) collection_api, filter (fun f => negb (mutator_ok lock_table f)) collection_mutators).\nPrint bad_api.\n')
    rc, o, e = floatvm.coq_eval('c10_table_%d' % os.getpid(), body)
    return (o + e)[-1500:]


def run_conc(binary, path, seed, threads, nops, seeded, quant, stats, procs, timeout, mix, env=None):
    args = ['conc', path] + [str(x) for x in (seed, threads, nops, seeded, quant, stats, procs, timeout, mix)]
    t0 = time.time()
    try:
        p = subprocess.run([binary] + args, stdout=subprocess.PIPE, stderr=subprocess.PIPE, timeout=timeout + 90, env=env)
        rc, out, err = p.returncode, p.stdout.decode(errors='replace'), p.stderr.decode(errors='replace')
    except subprocess.TimeoutExpired as ex:
        rc, out, err = -9, (ex.stdout or b'').decode(errors='replace'), 'harness itself timed out'
    return rc, out, err, time.time() - t0


import subprocess


def check(tier, seed, replay=None):
    chk = Check('C10', tier, seed)
    build = build_all()
    broken = proof_coverage(chk, 'C10', build) + list(build['problems'])
    rng = random.Random(seed * 1000003 + 601)
    ok, msg = build_race()
    nviol = 0
    stats = {'runs': 0, 'calls': 0, 'history_ops_linearized': 0, 'race_detector_runs': 0, 'nested_lock_scenarios': 0, 'configs': []}
    samples = []
    if not ok:
        chk.violation({'engine': 'conc', 'what': 'race-detector build of the harness failed: ' + msg[-400:], 'signature': 'conc:nobuild'})
        nviol += 1
    path = os.path.join(WORK, 'data', 'conc_%05d.dat' % (os.getpid() % 100000))
    os.makedirs(os.path.dirname(path), exist_ok=True)
    renv = dict(os.environ, GORACE='halt_on_error=1 exitcode=66')

    def judge(kind, cfg, rc, out, err):
        nonlocal nviol
        stats['runs'] += 1
        m = re.search(r'^done (\d+)', out, re.M)
        if m:
            stats['calls'] += int(m.group(1))
        lm = re.search(r'^lin (\w+) (\d+)', out, re.M)
        if lm:
            stats['history_ops_linearized'] += int(lm.group(2))
        why = sig = None
        if 'DATA RACE' in err:
            loc = re.findall(r'^\s+(github.com/smhanov/syzgydb\.[^\n]+)\n\s+(/repo/[^\s]+)', err, re.M)
            why = 'the race detector reported a data race: %s' % ('; '.join('%s %s' % l for l in loc[:3]) or err[:300])
            sig = 'conc:race:' + (loc[0][0][:60] if loc else 'unknown')
        elif 'HANG' in out:
            blocked = re.findall(r'#\s+0x[0-9a-f]+\s+(github.com/smhanov/syzgydb\.[^\s+]+)', err)
            why = 'calls did not return within the watchdog time: %s; blocked in %s' % (out.strip().splitlines()[0][:120], sorted(set(blocked))[:6])
            sig = 'conc:hang'
        elif rc != 0:
            why = 'the process died (rc=%s): %s' % (rc, (err.strip().splitlines() or [''])[0][:200] + ' ... ' + ' | '.join(l for l in err.splitlines() if 'syzgydb.' in l)[:300])
            sig = 'conc:died'
        elif lm and lm.group(1) == 'Unknown':
            chk.notes.append('linearizability check timed out on one history (no verdict)')
        elif lm and lm.group(1) != 'Ok':
            why = 'the recorded history is not linearizable with respect to the document-store specification (porcupine: %s)' % lm.group(1)
            sig = 'conc:lin'
        elif 'index ok' not in out and re.search(r'^index (.*)$', out, re.M):
            why = 'after the concurrent history the index is inconsistent with the store: ' + re.search(r'^index (.*)$', out, re.M).group(1)[:160]
            sig = 'conc:index'
        elif 'sanity ok' not in out:
            why = 'sanity check failed: %s' % ([l for l in out.splitlines() if l.startswith('sanity')] or ['no output'])[0][:200]
            sig = 'conc:sanity'
        if len(samples) < 3:
            samples.append({'kind': kind, 'config': cfg, 'output': out.strip().splitlines()[:3]})
        if why:
            if chk.violation({'engine': 'conc', 'what': why, 'kind': kind, 'config': cfg, 'signature': sig,
                              'replay_cmd': '%s conc <path> %s' % ('vharness_race' if kind.startswith('race') else 'vharness', ' '.join(str(cfg[k]) for k in ('seed', 'threads', 'ops', 'seeded', 'quant', 'stats', 'procs', 'timeout', 'mix')))}):
                nviol += 1
            return True
        return False

    def cfg_of(seed_, threads, ops, seeded, quant, st, procs, timeout, mix):
        return dict(seed=seed_, threads=threads, ops=ops, seeded=seeded, quant=quant, stats=st, procs=procs, timeout=timeout, mix=mix)

    plan = []
    nrounds = 8 if tier == 'quick' else 80
    for r in range(nrounds):
        s_ = rng.randrange(1, 10 ** 6)
        # all operations, including ComputeStats, both random-source configurations
        plan.append(('stress', HARNESS, cfg_of(s_, rng.choice([2, 4, 8, 16]), 400 if tier == 'quick' else 800, r % 2, rng.choice([4, 8, 16, 32, 64]), 1, rng.choice([1, 2, 16]), 25, 0), None))
        # readers inside ComputeStats while writers queue (the nested read-lock schedule of the model)
        plan.append(('stats+writers', HARNESS, cfg_of(s_ + 1, 8, 300, 0, 64, 1, 8, 15, 1), None))
        # race detector: mixed operations, and index splits in the seeded configuration (the five insert goroutines share the collection's random source)
        plan.append(('race:mixed', RACE, cfg_of(s_ + 2, 6, 120, r % 2, rng.choice([8, 64]), 1, 8, 60, 0), renv))
        plan.append(('race:splits', RACE, cfg_of(s_ + 3, 4, 70, 1 - (r % 2), 64, r % 2, 8, 60, 2), renv))
        # inserts only, with a reader checking every count against the real-time bounds
        plan.append(('counts', HARNESS, cfg_of(s_ + 4, 6, 150, 0, 64, 1, 8, 30, 2), None))
        # two collections of one process written at the same time (they share nothing a caller can see)
        plan.append(('two-collections', HARNESS, cfg_of(s_ + 5, 4, 400, 0, rng.choice([8, 64]), 0, 8, 30, 3), None))
        if r % 2 == 0:
            plan.append(('race:two-collections', RACE, cfg_of(s_ + 6, 4, 120, 0, 64, 0, 8, 60, 3), renv))
    t_end = time.time() + (2400 if tier == 'thorough' else 400)
    if replay is not None:
        c = replay['config']
        rc, out, err, dt = run_conc(RACE if replay.get('kind', '').startswith('race') else HARNESS, path, c['seed'], c['threads'], c['ops'], c['seeded'], c['quant'], c['stats'], c['procs'], c['timeout'], c['mix'], renv)
        print('replay: rc=%s out=%s err=%s' % (rc, out[:200], err[:300]))
        return 0
    for kind, binary, cfg, env in plan:
        if nviol >= 3 or time.time() > t_end or not ok:
            break
        rc, out, err, dt = run_conc(binary, path, cfg['seed'], cfg['threads'], cfg['ops'], cfg['seeded'], cfg['quant'], cfg['stats'], cfg['procs'], cfg['timeout'], cfg['mix'], env)
        if kind.startswith('race'):
            stats['race_detector_runs'] += 1
        if kind == 'stats+writers':
            stats['nested_lock_scenarios'] += 1
        stats['configs'].append({'kind': kind, 'threads': cfg['threads'], 'procs': cfg['procs'], 'seeded': cfg['seeded'], 'quant': cfg['quant'], 'seconds': round(dt, 1)})
        judge(kind, cfg, rc, out, err)
    if nviol == 0 and broken and ok:
        # the discipline is broken but nothing failed yet: concentrate on few documents and many goroutines
        ext = 0
        for r in range(30 if tier == 'quick' else 200):
            if nviol or time.time() > t_end + 200:
                break
            s_ = rng.randrange(1, 10 ** 6)
            for kind, binary, cfg, env in (('stress:contended', HARNESS, cfg_of(s_, 16, 400, r % 2, 64, 1, 16, 25, 0), None),
                                           ('race:contended', RACE, cfg_of(s_ + 1, 8, 150, r % 2, 64, 1, 8, 60, 0), renv)):
                rc, out, err, dt = run_conc(binary, path, cfg['seed'], cfg['threads'], cfg['ops'], cfg['seeded'], cfg['quant'], cfg['stats'], cfg['procs'], cfg['timeout'], cfg['mix'], env)
                ext += 1
                if judge(kind, cfg, rc, out, err):
                    break
        chk.notes.append('extended search after the broken obligation: %d further concurrent histories' % ext)
    if nviol == 0 and broken:
        rep = table_report() if any('C10' in b for b in broken) else ''
        chk.violation({'engine': 'proof', 'unproved': broken, 'lock_table_report': rep,
                       'what': 'a proof obligation no longer checks (C10_table: the regenerated lock table breaks the discipline, or another theorem broke); the runtime runs found no failing schedule'},
                      tag='proof', no_input=True)
    chk.cov.update({'programs': stats['runs'], 'evaluations': stats['calls'], 'distinct_nontrivial': stats['runs'],
                    'rule': 'every run = one concurrent history: 2..16 goroutines issuing AddDocument, UpdateDocument, removal, GetDocument, GetAllIDs, GetDocumentCount, Search (exact, default, radius, listing) and '
                            'ComputeStats on 6 overlapping ids (or thousands of fresh ids for index splits), GOMAXPROCS 1/2/8/16, seeded and unseeded random source, all quantisations; plain builds with a watchdog and a '
                            'linearizability check of the recorded per-document histories, race-detector builds for the same mixes. Non-trivial = every run (distinct seeds/configurations)',
                    'disagreements_checked': stats['history_ops_linearized'], 'samples': samples, 'distribution': stats, 'proof_obligations_broken': broken,
                    'lock_table': 'regenerated from the Go AST on this run; table_ok evaluated by Coq (theorem C10_table)'})
    chk.assumptions = [NOTE, 'partial: linearizability is checked on recorded histories (per-document register model), not proved; GetAllIDs/Count/Search are only sanity-checked under concurrency',
                       'the race detector does not instrument the mmap region; sync.RWMutex semantics as written in Conc.v (writer preference) are an assumption about the Go runtime']
    try:
        os.remove(path)
    except OSError:
        pass
    return chk.finish()
