"""R-vm runner: evaluate the PrimFloat models inside Coq with vm_compute."""
import os, re, subprocess, tempfile
from common import *


def coq_eval(name, body, timeout=1800):
    """writes work/vm/<name>.v = prelude + body, compiles it, returns stdout text"""
    d = os.path.join(WORK, 'vm')
    os.makedirs(d, exist_ok=True)
    p = os.path.join(d, name + '.v')
    with open(p, 'w') as f:
        f.write(body)
    rc, o, e = sh('timeout %d coqc -R %s Syz -w -inexact-float,-notation-overridden %s' % (timeout, COQ, p), timeout=timeout + 30)
    return rc, o.decode(errors='replace'), e.decode(errors='replace')


def parse_z_list(out, name):
    """extract 'name = [a; b; c]' (possibly wrapped over lines) as a list of ints"""
    m = re.search(re.escape(name) + r'\s*=\s*(.*?)\n\s*:\s', out, re.S)
    if not m:
        return None
    body = m.group(1).strip()
    if body in ('[]', 'nil'):
        return []
    return [int(x) for x in re.findall(r'-?\d+', body.replace('%Z', ''))]


def zlist(xs):
    return '[' + '; '.join(str(x) for x in xs) + ']'
