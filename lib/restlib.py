"""REST engine support: run the real server binary built from /repo/cmd on a loopback port."""
import http.client, json, os, shutil, socket, subprocess, tempfile, time
from common import *

SERVER_BIN = os.path.join(WORK, 'syzgy-server')


def build_server():
    rc, o, e = sh('go build -o %s ./cmd' % SERVER_BIN, cwd=REPO, env=GOENV, timeout=600)
    return rc == 0, (o + e).decode(errors='replace')


def free_port():
    s = socket.socket()
    s.bind(('127.0.0.1', 0))
    p = s.getsockname()[1]
    s.close()
    return p


class Server:
    def __init__(self, root=None, ollama='127.0.0.1:1'):
        self.ollama = ollama
        self.root = root or tempfile.mkdtemp(prefix='syz_rest_', dir=os.path.join(WORK, 'data') if os.path.isdir(os.path.join(WORK, 'data')) else None)
        self.data = os.path.join(self.root, 'outer', 'data')
        os.makedirs(self.data, exist_ok=True)
        self.proc = None
        self.port = None

    def start(self):
        self.port = free_port()
        self.log = open(os.path.join(self.root, 'server.log'), 'ab')
        self.proc = subprocess.Popen([SERVER_BIN, '--serve', '--data-folder', self.data, '--syzgy-host', '127.0.0.1:%d' % self.port, '--html-root', '', '--ollama-server', self.ollama],
                                     cwd=self.root, stdout=self.log, stderr=self.log)
        for _ in range(200):
            if self.proc.poll() is not None:
                return False
            try:
                c = socket.create_connection(('127.0.0.1', self.port), timeout=0.2)
                c.close()
                return True
            except OSError:
                time.sleep(0.05)
        return False

    def alive(self):
        return self.proc is not None and self.proc.poll() is None

    def stop(self, kill=True):
        if self.proc is not None:
            if kill:
                self.proc.kill()
            else:
                self.proc.terminate()
            try:
                self.proc.wait(timeout=10)
            except subprocess.TimeoutExpired:
                self.proc.kill()
            self.proc = None
            self.log.close()

    def restart(self):
        self.stop()
        return self.start()

    def request(self, method, path, body=None, timeout=20):
        """returns (status, decoded json or raw text) or ('dropped', reason)"""
        try:
            conn = http.client.HTTPConnection('127.0.0.1', self.port, timeout=timeout)
            data = None
            headers = {}
            if body is not None:
                data = body if isinstance(body, (bytes, str)) else json.dumps(body)
                headers['Content-Type'] = 'application/json'
            conn.request(method, path, body=data, headers=headers)
            r = conn.getresponse()
            raw = r.read()
            conn.close()
            try:
                return r.status, json.loads(raw)
            except ValueError:
                return r.status, raw.decode(errors='replace')
        except (http.client.HTTPException, OSError) as ex:
            return 'dropped', repr(ex)

    def tree(self):
        """snapshot of everything under root except the data folder and the log: path -> (size, mtime_ns)"""
        out = {}
        for d, dirs, files in os.walk(self.root):
            for fn in files:
                p = os.path.join(d, fn)
                if p.startswith(self.data + os.sep) or fn == 'server.log':
                    continue
                st = os.stat(p)
                out[os.path.relpath(p, self.root)] = (st.st_size, st.st_mtime_ns)
        return out

    def cleanup(self):
        self.stop()
        shutil.rmtree(self.root, ignore_errors=True)
