"""LSH support: forest dumps, routing with Go-compatible arithmetic, invariant oracles, Coq terms."""
import math
from searchlib import *


def parse_tree(tok, i=0):
    """tokens of harness 'tree' line (after 'tree k') -> (tree, next index). tree: ('L', ids) | ('N', normal_bits, b_bits, l, r) | None"""
    t = tok[i]
    if t == 'X':
        return None, i + 1
    if t == 'L':
        n = int(tok[i + 1])
        return ('L', [int(x) for x in tok[i + 2:i + 2 + n]]), i + 2 + n
    if t == 'N':
        b = int(tok[i + 1])
        dim = int(tok[i + 2])
        normal = [int(x) for x in tok[i + 3:i + 3 + dim]]
        l, j = parse_tree(tok, i + 3 + dim)
        r, j = parse_tree(tok, j)
        return ('N', normal, b, l, r), j
    raise ValueError(t)


def parse_forest(lines):
    out = []
    for l in lines:
        f = l.split()
        assert f[0] == 'tree'
        out.append(parse_tree(f, 2)[0])
    return out


def coq_tree(t):
    if t is None:
        return 'ZNil'
    if t[0] == 'L':
        return '(ZLeaf [%s])' % '; '.join(map(str, t[1]))
    return '(ZNode [%s] %d %s %s)' % ('; '.join(map(str, t[1])), t[2], coq_tree(t[3]), coq_tree(t[4]))


def leaf_ids(t):
    if t is None:
        return []
    if t[0] == 'L':
        return list(t[1])
    return leaf_ids(t[3]) + leaf_ids(t[4])


def tree_stats(t):
    if t is None or t[0] == 'L':
        return 1, 0
    a, b = tree_stats(t[3])
    c, d = tree_stats(t[4])
    return a + c, 1 + max(b, d)


def vlen(v):
    s = 0.0
    for x in v:
        s += x * x
    return math.sqrt(s)


def d2h(metric, v, length, normal, b):
    s = 0.0
    for x, y in zip(v, normal):
        s += x * y
    dist = s - b
    if metric == 0:
        if dist > 0:
            return dist, True
        return -dist, False
    try:
        dist = go_acos(dist / length) / Pi
    except ZeroDivisionError:
        dist = float('nan')
    if dist > 0.5:
        return 1 - dist, True
    return dist, False


def route(metric, t, v):
    """the leaf (list of ids) that vector v is routed to"""
    L = vlen(v)
    while t is not None and t[0] == 'N':
        _, right = d2h(metric, v, L, [unbits(x) for x in t[1]], unbits(t[2]))
        t = t[4] if right else t[3]
    return t


def index_inv(metric, forest, stored):
    """C05's invariant on a dump: every live id exactly once per tree, no dead id, found again by routing its stored vector,
    internal nodes have two children.  stored: id -> vector.  Returns None or a description."""
    live = sorted(stored)
    for k, t in enumerate(forest):
        if t is None:
            return 'tree %d is nil' % k
        ids = leaf_ids(t)

        def shape(n):
            if n is None:
                return 'a nil child'
            if n[0] == 'N':
                return shape(n[3]) or shape(n[4])
            return None
        s = shape(t)
        if s:
            return 'tree %d has %s' % (k, s)
        if sorted(ids) != live:
            dead = sorted(set(ids) - set(live))
            missing = sorted(set(live) - set(ids))
            dup = sorted({i for i in ids if ids.count(i) > 1})
            return 'tree %d: dead ids %s, missing ids %s, duplicated ids %s' % (k, dead[:5], missing[:5], dup[:5])
        for id_ in live:
            leaf = route(metric, t, stored[id_])
            if leaf is None or id_ not in leaf[1]:
                return 'tree %d: document %d is not in the leaf its stored vector routes to (a removal would miss it)' % (k, id_)
    return None
