"""C03 — exact search returns precisely the nearest matching documents."""
import math, os, random, time
from common import *
import floatvm
from searchlib import *

NOTE = ('theorems are about coq/Float/Search.v (result heap as a bounded ascending list over an abstract total preorder); tied to '
        'Collection.Search by evaluating the model with vm_compute on the stored vectors of the real collection and comparing ids and '
        'distance bit patterns up to ties; a brute-force oracle written independently in Python judges the implementation')


def gen_case(rng, tier):
    dim = rng.choice([1, 2, 3, 5, 8])
    q = rng.choice([4, 8, 16, 32, 64])
    metric = rng.randint(0, 1)
    c = SearchCase(dim, q, metric, rng.choice([0, 0, 7]))
    n = rng.choice([0, 1, 2, 3, 5, 8, 13, 30])
    ids = rng.sample(range(1, 200), n) if n else []
    # ids are unsigned 64-bit: a share of them beyond the signed range
    big = [2 ** 63, 2 ** 63 + 12345, 2 ** 64 - 1, 2 ** 63 - 1, 2 ** 32, 2 ** 64 - 2]
    ids = list(dict.fromkeys((rng.choice(big) if rng.random() < 0.25 else i) for i in ids))
    vecs = []
    for id_ in ids:
        v = rng.choice(vecs) if vecs and rng.random() < 0.2 else rand_vec(rng, dim, q)      # duplicates among stored vectors
        vecs.append(v)
        c.add(id_, v, bytes(rng.randrange(256) for _ in range(rng.randint(0, 6))))
    for _ in range(rng.randint(0, 6)):
        r = rng.random()
        if r < 0.3 and c.docs:
            c.rm(rng.choice(sorted(c.docs)))
        elif r < 0.6 and c.docs:
            c.add(rng.choice(sorted(c.docs)), rand_vec(rng, dim, q), b'ow')
        elif r < 0.8 and c.docs:
            c.upd(rng.choice(sorted(c.docs)), b'upd%d' % rng.randrange(100))
        else:
            c.reopen(None if rng.random() < 0.5 else (1 - metric, rng.choice([dim, dim + 1]), rng.choice([4, 8, 16, 32, 64])))
    c.cmds.append('docs')
    searches = []
    m = len(c.docs)
    for _ in range(6 if tier == 'quick' else 12):
        r = rng.random()
        if c.docs and r < 0.35:
            qv = list(c.docs[rng.choice(sorted(c.docs))][0])     # equal to a stored (pre-quantisation) vector
        elif r < 0.45:
            qv = [0.0] * dim
        else:
            qv = rand_vec(rng, dim, 64)
        fk = rng.choice([0, 0, 1, 2, 3])
        fa = rng.randint(1, 3)
        fb = rng.randrange(fa)
        if rng.random() < 0.55:
            K = rng.choice([1, 2, max(1, m - 1), max(1, m), m + 1, 1000])
            searches.append((K, 0.0, fk, fa, fb, qv))
        else:
            R = rng.choice([0.05, 0.3, 0.5, 1.0, 1.5, 3.0, 1e-9])
            if c.docs and rng.random() < 0.5:
                # a radius exactly at / next to a pairwise distance
                d = dist(metric, qv, [stored(q, x) for x in c.docs[rng.choice(sorted(c.docs))][0]])
                if d == d and d > 0 and d != math.inf:
                    R = rng.choice([d, nxt(d), nxt(d, False)])
            searches.append((0, R, fk, fa, fb, qv))
    for K, R, fk, fa, fb, qv in searches:
        c.search(K, R, True, fk, fa, fb, qv)
    phases = [searches]
    c.docs_at_phase1 = dict(c.docs)
    if c.docs and rng.random() < 0.6:
        # second phase: the id set changes while the number of documents stays the same (one removed, one new), then
        # the collection is searched again: an answer may never depend on an earlier search
        gone = rng.choice(sorted(c.docs))
        c.rm(gone)
        new_id = rng.choice([777, 2 ** 63 + 5, 4242])
        nv = rand_vec(rng, dim, q)
        c.add(new_id, nv, b'new')
        c.cmds.append('docs')
        s2 = [(1, 0.0, 0, 1, 0, list(nv)), (max(1, len(c.docs)), 0.0, 0, 1, 0, rand_vec(rng, dim, 64)), (0, 3.0 if metric == 0 else 1.0, 0, 1, 0, rand_vec(rng, dim, 64))]
        for K, R, fk, fa, fb, qv in s2:
            c.search(K, R, True, fk, fa, fb, qv)
        phases.append(s2)
    return c, phases


def brute(c, docs_stored, K, R, fk, fa, fb, qv, rows, pct):
    """independent statement of C03 on one answer. docs_stored: id -> (stored vector, meta hash)"""
    acc = flt(fk, fa, fb)
    cand = {}
    for id_, (v, mh, md) in docs_stored.items():
        if acc(id_, md):
            cand[id_] = dist(c.metric, qv, v)
    ds = [unbits(r[1]) for r in rows]
    if any(ds[i] > ds[i + 1] for i in range(len(ds) - 1)):
        return 'results are not in non-decreasing distance order'
    if len(set(r[0] for r in rows)) != len(rows):
        return 'a document is returned twice'
    for id_, db, mh in rows:
        if id_ not in cand:
            return 'result %d is not a live document accepted by the filter' % id_
        if bits(cand[id_]) != db and not (math.isnan(cand[id_]) and math.isnan(unbits(db))):
            return 'distance of result %d is not the distance to its stored vector' % id_
        if mh != docs_stored[id_][1]:
            return 'metadata of result %d is not current' % id_
    if R > 0:
        want = {i for i, d in cand.items() if d <= R}
        if {r[0] for r in rows} != want:
            return 'radius search did not return exactly the accepted documents within the radius (got %d, want %d)' % (len(rows), len(want))
    else:
        if len(rows) != min(K, len(cand)):
            return 'K-nearest search returned %d results, expected min(K, m) = %d' % (len(rows), min(K, len(cand)))
        if rows:
            worst = max(ds)
            inres = {r[0] for r in rows}
            for i, d in cand.items():
                if i not in inres and d < worst:
                    return 'document %d is closer than a returned one but was left out' % i
    if docs_stored and pct != bits(100.0):
        return 'PercentSearched is not 100 for an exact search of a non-empty collection'
    return None


def check(tier, seed, replay=None):
    chk = Check('C03', tier, seed)
    build = build_all()
    broken = proof_coverage(chk, 'C03', build) + list(build['problems'])
    rng = random.Random(seed * 1000003 + 61)
    ncases = 60 if tier == 'quick' else 2500
    path = os.path.join(WORK, 'data', 'search_%d.dat' % os.getpid())
    os.makedirs(os.path.dirname(path), exist_ok=True)
    nviol = 0
    corr = None
    stats = {'collections': 0, 'searches': 0, 'knn': 0, 'radius': 0, 'with_filter': 0, 'ties_at_cutoff': 0, 'empty_collections': 0, 'results': 0}
    samples = []
    vm_rows = []
    t_end = time.time() + (3000 if tier == 'thorough' else 500)
    cases = []
    if replay is not None:
        cases = [('replay', replay['commands'])]
    for i in range(ncases if replay is None else 0):
        c, searches = gen_case(rng, tier)
        cases.append((c, searches))
    for item in cases:
        if time.time() > t_end or nviol >= 3:
            break
        if item[0] == 'replay':
            text = '\n'.join(item[1]) + '\n'
            lines, rc, err = run_harness(['search', path], text)
            print('replay output:', lines[-5:])
            continue
        c, searches = item
        lines, rc, err = run_harness(['search', path], c.text())
        stats['collections'] += 1
        if rc != 0 or any(l.startswith('PANIC') for l in lines):
            if chk.violation({'engine': 'search', 'what': 'harness died or an operation panicked: %s %s' % ([l for l in lines if l.startswith('PANIC')][:1], err[-300:]),
                              'commands': c.cmds, 'signature': 'search:died'}):
                nviol += 1
            continue
        # phases: documents dump, then searches; a second phase after the id set changed
        phases = searches
        segs, cur = [], []
        for l in lines:
            if l == 'enddocs':
                segs.append([cur, []])
                cur = []
            elif segs and l.startswith('res '):
                segs[-1][1].append(l)
            else:
                cur.append(l)
        work = []
        for (doclines, reslines), ss in zip(segs, phases):
            ds = {}
            for l in doclines:
                if l.startswith('doc '):
                    f = l.split()
                    id_ = int(f[1])
                    ds[id_] = ([unbits(int(x)) for x in f[3:]], int(f[2]), None)
            work.append((ds, ss, reslines))
        # metadata as known to the history at the end (phase 1 documents that were removed later keep theirs from the dump hash only)
        if not work or not work[0][0]:
            stats['empty_collections'] += 1
        flat = []
        for pi, (ds, ss, reslines) in enumerate(work):
            for id_ in ds:
                md = (c.docs_at_phase1 if pi == 0 else c.docs).get(id_, (None, b''))[1]
                ds[id_] = (ds[id_][0], ds[id_][1], md)
            for s_, rl in zip(ss, reslines):
                flat.append((ds, s_, rl))
        docs_stored = work[0][0] if work else {}
        for docs_stored, (K, R, fk, fa, fb, qv), rl in flat:
            pct, rows = parse_res(rl)
            stats['searches'] += 1
            stats['knn' if R == 0 else 'radius'] += 1
            stats['with_filter'] += 1 if fk else 0
            stats['results'] += len(rows)
            why = brute(c, docs_stored, K, R, fk, fa, fb, qv, rows, pct)
            if len(samples) < 3:
                samples.append({'collection': {'dim': c.dim, 'quantization': c.q, 'metric': c.metric, 'documents': len(docs_stored)},
                                'search': {'K': K, 'radius': R, 'filter': [fk, fa, fb], 'query': qv}, 'results': rows[:5]})
            if why:
                if chk.violation({'engine': 'search', 'what': why, 'commands': c.cmds[:c.cmds.index('docs') + 1] + ['search %d %d 1 %d %d %d 0 0 %s' % (K, bits(R), fk, fa, fb, ' '.join(str(bits(x)) for x in qv))],
                                  'results': rows, 'signature': 'search:C03:' + why[:40]}):
                    nviol += 1
                break
            acc = flt(fk, fa, fb)
            drows = '; '.join('(%d, %s, %s)' % (id_, floatvm.zlist([bits(x) for x in v]), 'true' if acc(id_, md) else 'false') for id_, (v, mh, md) in sorted(docs_stored.items()))
            vm_rows.append('(%s, %s, %d, %d, [%s], %s)' % ('true' if c.metric == 1 else 'false', floatvm.zlist([bits(x) for x in qv]), K, bits(R), drows,
                                                         '[' + '; '.join('(%d, %d)' % (r[1], r[0]) for r in rows) + ']'))
    # ---- correspondence with the Coq model
    if vm_rows and nviol == 0:
        t0 = time.time()
        for s0 in range(0, len(vm_rows), 150):
            body = ('From Coq Require Import ZArith Floats List Bool.\nFrom Syz Require Import Quant Dist Search.\nImport ListNotations.\nOpen Scope Z_scope.\nOpen Scope bool_scope.\n'
                    'Definition rows : list (bool * list Z * Z * Z * list (Z * list Z * bool) * list (Z * Z)) := [\n' + ';\n'.join(vm_rows[s0:s0 + 150]) + '].\n'
                    'Definition bad (r : bool * list Z * Z * Z * list (Z * list Z * bool) * list (Z * Z)) : bool :=\n'
                    '  let \'(cosine, q, K, R, docs, observed) := r in\n'
                    '  let qv := map of_bits64 q in\n'
                    '  let ds := map (fun d => let \'(i, v, ok) := d in {| sd_id := i; sd_vec := map of_bits64 v; sd_ok := ok |}) docs in\n'
                    '  let model := if R =? 0 then search_knn cosine qv (Z.to_nat K) ds else search_radius cosine qv (of_bits64 R) ds in\n'
                    '  negb (same_answer model observed (candidates cosine qv ds)).\n'
                    'Definition mismatches := Eval vm_compute in map (fun r => Z.of_nat (length (snd r))) (filter bad rows).\nPrint mismatches.\n'
                    'Definition positions := Eval vm_compute in (fix go (i : Z) (l : list _) := match l with [] => [] | r :: t => if bad r then i :: go (i + 1) t else go (i + 1) t end) 0 rows.\nPrint positions.\n')
            rc2, o2, e2 = floatvm.coq_eval('c03_%d' % s0, body)
            ml = floatvm.parse_z_list(o2, 'positions')
            if rc2 != 0 or ml is None:
                corr = {'engine': 'search', 'channel': 'X.search.vm', 'what': 'model evaluation failed: ' + (e2 or o2)[-500:]}
                break
            if ml:
                corr = {'engine': 'search', 'channel': 'X.search.exact', 'what': 'model and implementation answers differ', 'row': vm_rows[s0 + ml[0]][:1500]}
                break
        chk.notes.append('model evaluation (vm_compute) took %.1fs for %d searches' % (time.time() - t0, len(vm_rows)))
    if nviol == 0 and replay is None:
        if corr:
            corr['unproved'] = 'correspondence between coq/Float/Search.v and Collection.Search (exact) no longer holds'
            chk.violation(corr, tag='correspondence', no_input=True)
        elif broken:
            chk.violation({'engine': 'proof', 'unproved': broken, 'what': 'a proof obligation no longer checks; no failing input found'}, tag='proof', no_input=True)
    chk.cov.update({'programs': stats['collections'], 'evaluations': stats['searches'], 'distinct_nontrivial': stats['searches'] - stats['empty_collections'],
                    'rule': 'collections built by histories (insert, overwrite, remove, update, reopen; duplicate stored vectors; all quantisations, both metrics), searched with queries equal to stored vectors, zero vectors and random ones; K in {1,2,m-1,m,m+1,1000}; radii at, just below and just above pairwise distances; id-, length- and content-based filters',
                    'disagreements_checked': len(vm_rows), 'samples': samples, 'distribution': stats,
                    'correspondence': 'model and implementation agree up to ties' if corr is None else 'DIVERGED', 'proof_obligations_broken': broken})
    chk.assumptions = [NOTE]
    try:
        os.remove(path)
    except OSError:
        pass
    return chk.finish()
