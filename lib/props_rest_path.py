"""C19 — collection names cannot reach outside the data folder."""
import os, random, time
from common import *
from restlib import *

NOTE = ('theorems are about coq/Model/PathClean.v (lexical filepath.Join/Clean on Unix, validCollectionName); tied to rest.go by comparing '
        'validity and resulting path with the real functions on generated names and folders (extracted model), and by creating, using and '
        'dropping collections with hostile names on the real server while the directory tree around the data folder is snapshotted')

NAMES = [b'x', b'ok_1', b'..', b'.', b'', b'../x', b'../../x', b'/abs', b'/abs/x', b'a/b', b'a/../../b', b'./x', b'x/', b'x/.', b'\\win', b'a\\b', b'x\x00y', b'\x00',
         b'%2e%2e%2fx', b'..%2Fx', b'x.dat', b'.dat', b'...', b'....', b' ', b'a b', b'\xc3\xa9', b'\xe2\x80\xa6', b'x' * 300, b'-', b'~', b'$HOME', b'*', b'a//b', b'//', b'/']
FOLDERS = [b'/srv/data', b'/srv/data/', b'data', b'./data', b'.', b'', b'/', b'/a/../b', b'a/./b//c/', b'../up', b'..', b'/a/b/../../..', b'//double//slash']


def hx(b):
    return b.hex() if b else '-'


def check(tier, seed, replay=None):
    chk = Check('C19', tier, seed)
    build = build_all()
    broken = proof_coverage(chk, 'C19', build) + list(build['problems'])
    rng = random.Random(seed * 1000003 + 83)
    cases = [(df, nm) for df in FOLDERS for nm in NAMES]
    alphabet = b'ab./\\\x00 -_%2eZ'
    for _ in range(1500 if tier == 'quick' else 60000):
        df = rng.choice(FOLDERS) if rng.random() < 0.7 else bytes(rng.choice(b'ab/.') for _ in range(rng.randint(0, 10)))
        nm = bytes(rng.choice(alphabet) for _ in range(rng.randint(0, 8)))
        cases.append((df, nm))
    if replay is not None and 'cases' in replay:
        cases = [(bytes.fromhex(a), bytes.fromhex(b)) for a, b in replay['cases']]
    g, rc, err = run_harness(['path'], ''.join('%s %s\n' % (hx(a), hx(b)) for a, b in cases))
    nviol = 0
    corr = None
    stats = {'function_cases': len(cases), 'accepted': 0, 'rejected': 0, 'server_requests': 0, 'server_names': 0}
    if rc != 0 or len(g) != len(cases):
        chk.violation({'engine': 'path', 'what': 'harness failed: %s' % err[-300:], 'signature': 'path:died'})
        nviol += 1
    else:
        # model (extracted), batched
        toks = [3, len(cases)]
        for df, nm in cases:
            c = [4, len(df)] + list(df) + [len(nm)] + list(nm)
            toks += [len(c)] + c
        m, mrc, merr = run_oracle(' '.join(map(str, toks)) + '\n')
        m = [l for l in m if l != '777']
        for (df, nm), gl, ml in zip(cases, g, m):
            gv, gp = gl.split()
            gp = b'' if gp == '-' else bytes.fromhex(gp)
            stats['accepted' if gv == '1' else 'rejected'] += 1
            mf = list(map(int, ml.split()))
            mv, mp = mf[0], bytes(mf[2:2 + mf[1]])
            if corr is None and (int(gv) != mv or gp != mp):
                corr = {'engine': 'path', 'channel': 'X.path', 'cases': [[df.hex(), nm.hex()]], 'implementation': [gv, gp.decode('latin1')], 'model': [mv, mp.decode('latin1')]}
            # oracle: an accepted name stays directly inside the cleaned folder
            if gv == '1':
                want_dir = os.path.normpath(df.decode('latin1')) if df else '.'
                if df.startswith(b'//') and not df.startswith(b'///'):
                    want_dir = '/' + want_dir.lstrip('/')        # normpath keeps a leading double slash, filepath.Clean does not
                got_dir = os.path.dirname(gp.decode('latin1')) or '.'
                base = os.path.basename(gp.decode('latin1'))
                if (got_dir != want_dir and not (want_dir == '/' and got_dir == '/')) or base != (nm + b'.dat').decode('latin1') or b'/' in nm:
                    if chk.violation({'engine': 'path', 'what': 'an accepted collection name maps to a file that is not directly inside the data folder',
                                      'cases': [[df.hex(), nm.hex()]], 'path': gp.decode('latin1'), 'folder': want_dir, 'signature': 'path:escape'}):
                        nviol += 1
                        break
    # ---- the real server: create / use / drop with hostile names; nothing outside the data folder may change
    if nviol == 0 and replay is None:
        ok, msg = build_server()
        srv = Server()
        try:
            if not ok or not srv.start():
                chk.violation({'engine': 'rest', 'what': 'server does not build or start: ' + msg[-300:], 'signature': 'rest:nostart'})
                nviol += 1
            else:
                victim = os.path.join(srv.root, 'outer', 'victim.dat')
                with open(victim, 'w') as f:
                    f.write('precious')
                with open(os.path.join(srv.root, 'top.dat'), 'w') as f:
                    f.write('precious too')
                before = srv.tree()
                escaped = []
                names = ['../victim', '../../top', '../escaped', '/tmp/syz_abs_escape_%d' % os.getpid(), 'sub/dir', '..', '.', '', 'a\\b', 'good', 'x\u0000y', '..%2Fvictim', '%2e%2e%2fvictim',
                         '\u2025\uff0fvictim', '\uff0e\uff0e\uff0fvictim', '..\uff0fvictim', '..\u2215victim', '..\u2044victim', '\u2024\u2024/victim', ' ../victim', '../victim ', '\u2025\uff0fescaped2', '\uff0e\uff0e\uff0fescaped3', '..\u2215escaped4', ' ../escaped5', '../escaped6 ', '..\\victim', '\uff0e\uff0e\uff3cvictim']
                if tier == 'thorough':
                    names += ['../' * k + 'deep' for k in range(1, 6)] + [n.decode('latin1') for n in NAMES if b'\x00' not in n]
                from urllib.parse import quote
                for nm in names:
                    stats['server_names'] += 1
                    # the name as a URL path segment: raw, percent-encoded once, percent-encoded twice
                    # (net/http decodes the path once; a handler that decodes again sees the separators)
                    segs = [nm, quote(nm, safe=''), quote(quote(nm, safe=''), safe='')]
                    reqs = [('POST', '/api/v1/collections', {'name': nm, 'distance_function': 'euclidean', 'vector_size': 2, 'quantization': 64})]
                    for seg in dict.fromkeys(segs):
                        reqs += [('POST', '/api/v1/collections/%s/records' % seg, [{'id': 1, 'vector': [1.0, 2.0], 'metadata': {'k': 'v'}}]),
                                 ('GET', '/api/v1/collections/%s/ids' % seg, None),
                                 ('GET', '/api/v1/collections/%s' % seg, None),
                                 ('GET', '/api/v1/collections/%s/records/1' % seg, None),
                                 ('PUT', '/api/v1/collections/%s/records/1/metadata' % seg, {'metadata': {'k': 'w'}}),
                                 ('POST', '/api/v1/collections/%s/search' % seg, {'vector': [1.0, 2.0], 'k': 1}),
                                 ('GET', '/api/v1/collections/%s/search?k=1' % seg, None),
                                 ('DELETE', '/api/v1/collections/%s/records/1' % seg, None),
                                 ('DELETE', '/api/v1/collections/%s' % seg, None)]
                    for method, path, body in reqs:
                        try:
                            srv.request(method, path.replace('\x00', '%00').replace(' ', '%20'), body)
                        except Exception:
                            pass
                        stats['server_requests'] += 1
                        if not srv.alive():
                            srv.start()
                        # after EVERY request: a file created by one request may be removed again by a later one
                        now = srv.tree()
                        if now != before and not escaped:
                            diff = sorted(k for k in set(before) | set(now) if before.get(k) != now.get(k))
                            escaped.append('%s %s (name %r) changed %s' % (method, path[:80], nm, diff[:4]))
                after = srv.tree()
                changed = {k: (before.get(k), after.get(k)) for k in set(before) | set(after) if before.get(k) != after.get(k)}
                absfile = '/tmp/syz_abs_escape_%d.dat' % os.getpid()
                if os.path.exists(absfile):
                    changed[absfile] = (None, 'created')
                    os.remove(absfile)
                if escaped and not changed:
                    changed = {escaped[0]: ('transient', 'transient')}
                if changed:
                    chk.violation({'engine': 'rest', 'what': 'files outside the data folder were created, modified or deleted through collection names: %s %s' % (sorted(changed)[:5], escaped[:1]),
                                   'signature': 'rest:C19:outside'})
                    nviol += 1
                # ---- many create requests at the same moment, acceptable and forbidden names mixed: whatever the handlers share
                # between requests, a forbidden name must never reach the file system
                if nviol == 0:
                    import threading
                    before3 = srv.tree()
                    bad_status = []
                    for rnd in range(25):
                        names3 = ['ok%d_%d' % (rnd, k) for k in range(16)] + ['../escaped_%d_%d' % (rnd, k) for k in range(16)]
                        rng.shuffle(names3)
                        # all connections are opened first and the requests written back to back, so that they reach the handlers together
                        import socket
                        socks = []
                        for nm in names3:
                            body3 = json.dumps({'name': nm, 'distance_function': 'euclidean', 'vector_size': 2, 'quantization': 64}).encode()
                            req = (b'POST /api/v1/collections HTTP/1.1\r\nHost: x\r\nContent-Type: application/json\r\nConnection: close\r\nContent-Length: %d\r\n\r\n' % len(body3)) + body3
                            try:
                                c_ = socket.create_connection(('127.0.0.1', srv.port), timeout=20)
                                socks.append((nm, c_, req))
                            except OSError:
                                pass
                        for nm, c_, req in socks:
                            try:
                                c_.sendall(req)
                            except OSError:
                                pass
                        for nm, c_, req in socks:
                            try:
                                data = b''
                                while True:
                                    chunk = c_.recv(65536)
                                    if not chunk:
                                        break
                                    data += chunk
                                st = int(data.split(b' ', 2)[1]) if data.startswith(b'HTTP/') else 'dropped'
                            except (OSError, ValueError, IndexError):
                                st = 'dropped'
                            finally:
                                c_.close()
                            if nm.startswith('..') and st not in (400, 'dropped'):
                                bad_status.append((nm, st))
                        stats['server_requests'] += len(names3)
                        for nm in names3:
                            if not nm.startswith('..'):
                                srv.request('DELETE', '/api/v1/collections/%s' % nm)
                        if srv.tree() != before3 or bad_status:
                            break
                    now3 = srv.tree()
                    changed3 = sorted(k for k in set(before3) | set(now3) if before3.get(k) != now3.get(k))
                    stats['concurrent_create_rounds'] = rnd + 1
                    if changed3 or bad_status:
                        chk.violation({'engine': 'rest', 'what': 'concurrent create requests with acceptable and forbidden names: files outside the data folder changed %s; forbidden names answered %s' % (changed3[:4], bad_status[:3]),
                                       'signature': 'rest:C19:concurrent-create'})
                        nviol += 1
                # ---- a data folder that was copied elsewhere: the files carry the path they were created under; every
                # operation of the server started on the copy must stay inside the copy
                if nviol == 0:
                    import shutil
                    for nm in ('moved1', 'moved2'):
                        srv.request('POST', '/api/v1/collections', {'name': nm, 'distance_function': 'euclidean', 'vector_size': 2, 'quantization': 64})
                        srv.request('POST', '/api/v1/collections/%s/records' % nm, [{'id': 1, 'vector': [1.0, 2.0], 'metadata': {'k': 'v'}}])
                    srv.stop(kill=False)
                    old = srv.data
                    srv.data = os.path.join(srv.root, 'outer', 'copy_of_data')
                    shutil.copytree(old, srv.data)
                    if srv.start():
                        before2 = srv.tree()          # the old folder is now outside the configured one
                        for method, path, body in (('POST', '/api/v1/collections/moved1/records', [{'id': 2, 'vector': [3.0, 4.0], 'metadata': {'k': 'x'}}]),
                                                   ('PUT', '/api/v1/collections/moved1/records/1/metadata', {'metadata': {'k': 'w'}}),
                                                   ('DELETE', '/api/v1/collections/moved1/records/1', None),
                                                   ('DELETE', '/api/v1/collections/moved1', None),
                                                   ('DELETE', '/api/v1/collections/moved2', None)):
                            srv.request(method, path, body)
                            stats['server_requests'] += 1
                        after2 = srv.tree()
                        changed2 = sorted(k for k in set(before2) | set(after2) if before2.get(k) != after2.get(k))
                        left = [f for f in ('moved1.dat', 'moved2.dat') if os.path.exists(os.path.join(srv.data, f))]
                        stats['moved_folder_requests'] = 5
                        if changed2:
                            chk.violation({'engine': 'rest', 'what': 'a server started on a copy of a data folder changed files outside its own folder (the path recorded in the file was used): %s' % changed2[:4],
                                           'signature': 'rest:C19:moved-folder'})
                            nviol += 1
                        elif left:
                            chk.violation({'engine': 'rest', 'what': 'dropping a collection of a copied data folder left its file in the data folder: %s' % left, 'signature': 'rest:C19:moved-folder-left'})
                            nviol += 1
        finally:
            srv.cleanup()
    if nviol == 0 and replay is None:
        if corr:
            corr['unproved'] = 'correspondence between coq/Model/PathClean.v and rest.go (validCollectionName, collectionNameToFileName) no longer holds'
            chk.violation(corr, tag='correspondence', no_input=True)
        elif broken:
            chk.violation({'engine': 'proof', 'unproved': broken, 'what': 'a proof obligation no longer checks; no failing input found'}, tag='proof', no_input=True)
    chk.cov.update({'programs': len(cases), 'evaluations': len(cases) + stats['server_requests'], 'distinct_nontrivial': len(set(cases)),
                    'rule': 'collection names with separators, .., absolute paths, empty, dots, NUL, percent-encoding, long, UTF-8, crossed with absolute / relative / dotted / unclean data folders; on the real server every hostile name is used in a create request and, as a URL path segment (raw, percent-encoded once and twice), in insert, ids, info, record get/update/delete, search and drop requests, with sentinel .dat files placed around the data folder; then the data folder is copied, the server restarted on the copy, and records and collections are changed and dropped there while the original folder is watched',
                    'disagreements_checked': len(cases), 'samples': [{'folder': a.decode('latin1'), 'name': b.decode('latin1'), 'implementation': l} for (a, b), l in list(zip(cases, g))[:40:13]],
                    'distribution': stats, 'correspondence': 'model and implementation agree' if corr is None else 'DIVERGED', 'proof_obligations_broken': broken})
    chk.assumptions = [NOTE]
    return chk.finish()
