"""Search engine support: Go-compatible distances in Python (independent of the Coq model),
collection histories for the search harness, brute-force oracles."""
import math, random, struct
from common import *
from props_quant import bits, unbits, nxt, deq
from store import hash_bytes

Pi = math.pi


def xatan(x):
    P0 = -8.750608600031904122785e-01; P1 = -1.615753718733365076637e+01; P2 = -7.500855792314704667340e+01
    P3 = -1.228866684490136173410e+02; P4 = -6.485021904942025371773e+01
    Q0 = +2.485846490142306297962e+01; Q1 = +1.650270098316988542046e+02; Q2 = +4.328810604912902668951e+02
    Q3 = +4.853903996359136964868e+02; Q4 = +1.945506571482613964425e+02
    z = x * x
    z = z * ((((P0 * z + P1) * z + P2) * z + P3) * z + P4) / (((((z + Q0) * z + Q1) * z + Q2) * z + Q3) * z + Q4)
    return x * z + x


def satan(x):
    Morebits = 6.123233995736765886130e-17; Tan3pio8 = 2.41421356237309504880
    if x <= 0.66:
        return xatan(x)
    if x > Tan3pio8:
        return Pi / 2 - xatan(1 / x) + Morebits
    return Pi / 4 + xatan((x - 1) / (x + 1)) + 0.5 * Morebits


def go_asin(x):
    if x == 0:
        return x
    sign = False
    if x < 0:
        x = -x
        sign = True
    if x > 1:
        return float('nan')
    t = math.sqrt(1 - x * x)
    t = Pi / 2 - satan(t / x) if x > 0.7 else satan(x / t)
    return -t if sign else t


def go_acos(x):
    if x != x:
        return x
    return Pi / 2 - go_asin(x)


def euclid(a, b):
    s = 0.0
    for x, y in zip(a, b):
        d = x - y
        s += d * d
    return math.sqrt(s)


def angular(a, b):
    d = m1 = m2 = 0.0
    for x, y in zip(a, b):
        d += x * y
        m1 += x * x
        m2 += y * y
    if m1 == 0 or m2 == 0:
        return 1.0
    try:
        c = d / (math.sqrt(m1) * math.sqrt(m2))
    except ZeroDivisionError:
        return float('nan')
    if c > 1:
        c = 1.0
    elif c < -1:
        c = -1.0
    return go_acos(c) / Pi


def dist(metric, a, b):
    return angular(a, b) if metric == 1 else euclid(a, b)


def f32(x):
    try:
        return struct.unpack('>f', struct.pack('>f', x))[0]
    except OverflowError:
        return math.inf if x > 0 else -math.inf


def stored(q, x):
    """the value read back after storing x under quantisation q"""
    if q == 64:
        return x
    if q == 32:
        return f32(x)
    mx = (1 << q) - 1
    v = max(-1.0, min(1.0, x))
    t = (v + 1) / 2 * float(mx)
    k = int(math.floor(t + 0.5)) if abs(t - round(t)) != 0.5 else int(t + 0.5)
    k = max(0, min(mx, k))
    return (float(k) / float(mx)) * 2 - 1


def flt(kind, a, b):
    if kind == 1:
        return lambda id_, md: id_ % a == b
    if kind == 2:
        return lambda id_, md: len(md) % a == b
    if kind == 3:
        return lambda id_, md: (md[0] if md else 0) % a == b
    return lambda id_, md: True


class SearchCase:
    """a history of add/rm/upd/reopen followed by searches, rendered for harness/search.go"""
    def __init__(self, dim, q, metric, seed):
        self.dim, self.q, self.metric, self.seed = dim, q, metric, seed
        self.cmds = ['new %d %d %d %d' % (dim, q, metric, seed)]
        self.docs = {}      # id -> (vector as given, meta)

    def add(self, id_, v, md):
        self.cmds.append('add %d %s %s' % (id_, md.hex() or '-', ' '.join(str(bits(x)) for x in v)))
        self.docs[id_] = (list(v), md)

    def badadd(self, id_, extra=1):
        # rejected (wrong vector length): no effect on the documents
        self.cmds.append('badadd %d %d' % (id_, extra))

    def rm(self, id_):
        self.cmds.append('rm %d' % id_)
        self.docs.pop(id_, None)

    def upd(self, id_, md):
        self.cmds.append('upd %d %s' % (id_, md.hex() or '-'))
        if id_ in self.docs:
            self.docs[id_] = (self.docs[id_][0], md)

    def reopen(self, other=None):
        # other = (metric, dim, quantization) passed to NewCollection although the file has its own
        self.cmds.append('reopen' if other is None else 'reopen %d %d %d' % other)

    def search(self, K, R, exact, fk, fa, fb, qv, off=0, lim=0):
        self.cmds.append('search %d %d %d %d %d %d %d %d %s' % (K, bits(R), 1 if exact else 0, fk, fa, fb, off, lim, ' '.join(str(bits(x)) for x in qv)))

    def text(self):
        return '\n'.join(self.cmds) + '\n'


def rand_vec(rng, dim, q):
    r = rng.random()
    if r < 0.2 and q in (4, 8, 16):
        return [deq(rng.randrange(1 << q), q) for _ in range(dim)]
    if r < 0.3:
        return [0.0] * dim
    if r < 0.4:
        return [rng.choice([0.5, -0.5, 0.25, 1.0, -1.0]) for _ in range(dim)]
    return [rng.uniform(-1, 1) for _ in range(dim)]


def parse_res(line):
    f = line.split()
    assert f[0] == 'res', line
    pct = int(f[1])
    n = int(f[2])
    rows = [(int(f[3 + 3 * i]), int(f[4 + 3 * i]), int(f[5 + 3 * i])) for i in range(n)]
    return pct, rows
