"""Checks of the filter language: C13 (meaning), C14 (no panic / hang), C15 (whole text)."""
import json, os, random, time
from common import *
from qfilter import *

NOTE_FILTER = ('theorems are about coq/Model/{QLex,QParse,QEval}.v; the model is tied to query/*.go by running the extracted '
               'model and the implementation on the same (filter text, documents) and comparing token stream, syntax tree and '
               'every verdict. strconv.ParseFloat, encoding/json and regexp are oracles of the model (values supplied by the '
               'driver: Python float(), json, re on the common subset).')


def corpus_cases():
    cases = []
    p = os.path.join(VERIF, 'corpus', 'filter')
    for fn in sorted(os.listdir(p)) if os.path.isdir(p) else []:
        for l in open(os.path.join(p, fn), encoding='utf-8'):
            if l.strip() and not l.startswith('#'):
                f = l.rstrip('\n').split('\t')
                cases.append((f[0].encode('utf-8'), [x.encode('utf-8') for x in f[1:]]))
    return cases


RICH = ["x[*] == 'a\\n' AND y DOES NOT EXIST OR z >= 0x1F AND w <= 1.5e+10 AND :p != \"q\\\"\" AND k IN [1, 'a'] AND NOT (m.n[2].length > 3)",
        "ANY(items[*] price > 5) OR f(a, b) OR a[*].b EXISTS OR tags[0] STARTS_WITH 'J' OR name MATCHES '^a.*b$' OR u NOT IN [2.5, 3e2]",
        "a == true AND b != false OR c == null AND (d < 1 OR (e > 2 AND (f <= 3 OR g >= 4))) AND h CONTAINS \"x\" AND i ENDS_WITH 'y'"]


def prefix_cases(rng, texts):
    out = []
    for t in texts:
        doc = json.dumps(gen_doc(rng)).encode()
        b = t.encode('utf-8')
        for i in range(len(b) + 1):
            out.append((b[:i], [doc]))
            if i < len(b):
                out.append((b[:i] + b[i + 1:], [doc]))      # one byte deleted
    return out


def gen_cases(rng, n, prop):
    cases = []
    if prop == 'C14':
        cases += prefix_cases(rng, RICH + [gen_expr(rng) for _ in range(4)])
    for i in range(n):
        t = gen_expr(rng)
        docs = [json.dumps(gen_doc(rng), ensure_ascii=rng.random() < 0.5).encode() for _ in range(3)]
        if prop == 'C14':
            if i % 2 == 0:
                t = mutate_text(rng, t)
            if i % 25 == 7:
                # a NUL byte (the lexer's old end-of-input sentinel), alone or after a backslash, inside a quoted string
                quote_ = rng.choice(['"', "'"])
                t = 'name == %sab%scd%s%s' % (quote_, rng.choice(['\x00', '\\\x00', '\x00\x00', '\\\x00\\']), rng.choice([quote_, '']), rng.choice(['', ' AND age > 1']))
            docs.append(bad_docs(rng))
            docs.append(docs[0])                      # same document twice: the answer must be the same
            if i % 40 == 0:
                depth = rng.choice([50, 300, 2000])
                t = '(' * depth + 'a == 1' + ')' * rng.choice([depth, depth - 1])
        elif prop == 'C15':
            k = i % 6
            a = t
            if k == 0:
                t = a + ' ' + gen_cond(rng)               # A B
            elif k == 1:
                t = a + ' and ' + gen_cond(rng)           # lower-case connective
            elif k == 2:
                t = a + ' ' + rng.choice(["17", "'lit'", 'zzz', 'true', 'null', '= 1', '!', ':p', "'oops", '"', "'", "' OR zzz == 3", '"tail', "'a' '", '\\', '#', ';', '}', '17 "',
                                               '\x00', '\x00 zzz', '\x00 OR zzz == 3', '\x00)', '\x00\x00 AND',      # a NUL byte does not end the text
                                               '-', '- zzz', '-)', '+', '*', '- - 1'])
            elif k == 3:
                b = gen_expr(rng)
                x = rng.choice(['opt', 'zzz', 'name'])
                t = x + ' == null AND (' + b + ')'
                cases.append((t.encode('utf-8'), docs))
                cases.append(((x + ' == null').encode(), docs))
                cases.append((b.encode('utf-8'), docs))
                continue
            elif k == 4:
                t = a + ' ' + rng.choice([')', ']', ',', '( b == 1 )'])
            elif k == 5 and i % 12 == 5:
                # a stray operator character in the middle or in front of the expression
                parts = a.split(' ')
                j = rng.randrange(len(parts) + 1)
                t = ' '.join(parts[:j] + [rng.choice(['-', '#', ';', '+', '- -'])] + parts[j:])
        else:
            if i % 6 == 5:
                t = mutate_text(rng, t)
        cases.append((t.encode('utf-8'), docs))
    return cases


def rest_leg(rng, stats):
    """the same rule where a filter text reaches the library through the server: a search whose filter text is not one
    expression is refused (GET query string and POST body), a filter that is one expression is applied"""
    from restlib import Server, build_server
    from urllib.parse import quote
    ok, msg = build_server()
    srv = Server()
    try:
        if not ok or not srv.start():
            return {'engine': 'rest', 'what': 'server does not build or start: ' + msg[-300:], 'signature': 'filter:C15:rest-nostart'}
        srv.request('POST', '/api/v1/collections', {'name': 'f', 'distance_function': 'euclidean', 'vector_size': 2, 'quantization': 64})
        srv.request('POST', '/api/v1/collections/f/records', [{'id': i, 'vector': [float(i), 0.0], 'metadata': {'a': 'v%d' % i, 'b': 'x%d' % i}} for i in (1, 2, 3)])
        junk = ['a == "v1" zzz', 'a == "v1" b == "x1"', 'a == "v1" and a == "v1"', "a == 'v1' 'lit'", 'a == "v1" 17', 'a == "v1" )', 'a == "v1" AND b == "x1" "tail"', 'a == "v1" OR']
        rng.shuffle(junk)
        for t in junk:
            for method, path, body in (('GET', '/api/v1/collections/f/search?limit=10&filter=' + quote(t), None),
                                       ('POST', '/api/v1/collections/f/search', {'limit': 10, 'filter': t}),
                                       ('GET', '/api/v1/collections/f/search?k=2&filter=' + quote(t), None)):
                st, resp = srv.request(method, path, body)
                stats['rest_requests'] = stats.get('rest_requests', 0) + 1
                if st == 200:
                    return {'engine': 'rest', 'what': 'the server accepted a search whose filter text is not one expression (%s %s): the text was ignored, answer %s' % (method, path[:120], str(resp)[:120]),
                            'filter': t, 'signature': 'filter:C15:rest-accepted'}
        st, resp = srv.request('GET', '/api/v1/collections/f/search?limit=10&filter=' + quote('a == "v2"'), None)
        ids = [r.get('id') for r in (resp.get('results') or [])] if isinstance(resp, dict) else None
        if st != 200 or ids != [2]:
            return {'engine': 'rest', 'what': 'a listing with the filter a == "v2" answered %s %s' % (st, str(resp)[:160]), 'signature': 'filter:C15:rest-valid'}
    finally:
        srv.cleanup()
    return None


def filter_property(prop, tier, seed, replay=None):
    chk = Check(prop, tier, seed)
    build = build_all()
    broken = proof_coverage(chk, prop, build) + list(build['problems'])
    n = {'C13': 700, 'C14': 600, 'C15': 600}[prop] * (1 if tier == 'quick' else 40)
    stats = {'cases': 0, 'docs': 0, 'accepted': 0, 'rejected': 0, 'verdicts': {'T': 0, 'F': 0, 'E': 0}, 'ref_checked': 0, 'ref_true': 0,
             'ref_false': 0, 'untyped': 0, 'model_fuel': 0}
    corr = None
    nviol = 0
    samples = []

    def run(cases, origin):
        nonlocal corr, nviol
        g, rc, err = run_go(cases)
        m = model_two_pass(cases)
        if err.startswith('HANG '):
            if chk.violation({'engine': 'filter', 'what': 'building or applying the filter did not finish within 10 s (bounded time): %r' % err[5:200], 'filter': err[5:],
                              'filter_hex': err[5:].encode('utf-8', 'replace').hex(), 'signature': 'filter:hang'}):
                nviol += 1
            return
        if rc != 0 or len(g) != len(cases):
            if chk.violation({'engine': 'filter', 'what': 'harness died (exit %s): %s' % (rc, err[-500:]), 'signature': 'filter:died'}):
                nviol += 1
            return
        for idx, (c, a, b) in enumerate(zip(cases, g, m)):
            text, docs = c
            stats['cases'] += 1
            stats['docs'] += len(docs)
            stats['accepted' if a['verdicts'] not in ('B', 'P') else 'rejected'] += 1
            for ch in a['verdicts']:
                if ch in stats['verdicts']:
                    stats['verdicts'][ch] += 1
            if len(samples) < 3:
                samples.append({'filter': text.decode('utf-8', 'replace'), 'docs': [d.decode('utf-8', 'replace')[:120] for d in docs[:2]],
                                'implementation': {'ast': a['ast'][:160], 'verdicts': a['verdicts']}})
            if b['ast'] == 'FUEL':
                stats['model_fuel'] += 1
            # ---- correspondence
            if corr is None:
                for k in ('tokens', 'ast', 'verdicts'):
                    if a[k] != b[k]:
                        corr = {'engine': 'filter', 'channel': 'X.filter.' + k, 'filter': text.decode('utf-8', 'replace'),
                                'filter_hex': text.hex(), 'docs_hex': [d.hex() for d in docs],
                                'implementation': str(a[k])[:600], 'model': str(b[k])[:600], 'origin': origin}
                        break
            # ---- oracles
            viol = None
            if a['again'] != a['verdicts'] or (a['verdicts'] == 'B') != (a['search'] == 'B'):
                # C13/C14/C15 all speak about "the filter text": its outcome may not depend on what was submitted before
                viol = ('the same text was %s on one submission and %s on the next (FilterFunctionFromQuery %s, BuildFilter %s, FilterFunctionFromQuery again %s)'
                        % ('rejected' if 'B' in (a['verdicts'], a['search'], a['again']) else 'answered one way', 'accepted' if 'B' in (a['verdicts'], a['search'], a['again']) else 'another',
                           a['verdicts'], a['search'], a['again']))
            if viol is None and a['history'] != 'same':
                viol = ('one built filter gave different answers for the same documents before and after it was applied to documents it cannot evaluate: %s' % a['history']
                        if a['history'] != 'P' else 'applying a built filter to unevaluable documents panicked')
            if viol is None and a['concurrent'] != 'same':
                viol = ('one built filter, applied from four goroutines while another filter is evaluated, %s' %
                        ('panicked' if a['concurrent'] == 'panic' else 'gave answers that differ from the ones it gives alone'))
            if viol is None and prop == 'C14':
                if a['tokens'] is None or 'PANIC' in a['ast'] or 'P' in a['verdicts'] or 'P' in a['search']:
                    viol = 'building or applying the filter panicked'
                elif a['verdicts'] not in ('B',) and len(docs) >= 2 and docs[-1] == docs[0] and a['verdicts'][-1] != a['verdicts'][0]:
                    viol = 'the same filter gave two different answers for the same metadata'
                elif a['verdicts'] == 'B' and a['search'] != 'B':
                    viol = 'BuildFilter accepted a text the parser rejects'
                elif a['verdicts'] != 'B' and any((x == 'T') != (y == 'T') for x, y in zip(a['verdicts'], a['search'])):
                    viol = 'BuildFilter result differs from the filter function (errors must reject)'
            if prop == 'C13':
                e = ref_parse(text.decode('utf-8', 'replace'))
                if e is not None:
                    if a['verdicts'] in ('B', 'P'):
                        viol = 'a filter of the documented grammar was rejected'
                    else:
                        for d, v in zip(docs, a['verdicts']):
                            try:
                                doc = decode_doc(d)
                            except BadJSON:
                                continue
                            if not isinstance(doc, dict):
                                continue
                            try:
                                want = ref_eval(e, doc)
                            except Untyped:
                                stats['untyped'] += 1
                                continue
                            stats['ref_checked'] += 1
                            stats['ref_true' if want else 'ref_false'] += 1
                            if ('T' if want else 'F') != v:
                                viol = 'verdict %s differs from the documented meaning %s for document %s' % (v, want, d.decode('utf-8', 'replace')[:200])
                                break
            if prop == 'C15' and origin.startswith('generated'):
                kind = idx  # position only used for the null triple below
                tt = text.decode('utf-8', 'replace')
                if ref_parse(tt) is None and a['verdicts'] not in ('B', 'P') and is_junk_case(tt):
                    viol = 'a text that continues after a complete expression was accepted'
            if viol:
                if chk.violation({'engine': 'filter', 'what': viol, 'filter': text.decode('utf-8', 'replace'), 'filter_hex': text.hex(),
                                  'docs_hex': [d.hex() for d in docs], 'implementation': a, 'origin': origin,
                                  'signature': 'filter:%s:%s' % (prop, viol[:50])}):
                    nviol += 1
                    if nviol >= 3:
                        return
        # null triples (C15): verdict(x == null AND B) = verdict(x == null) and verdict(B)
        if prop == 'C15':
            for i in range(len(cases) - 2):
                t0 = cases[i][0].decode('utf-8', 'replace')
                if ' == null AND (' in t0 and cases[i + 1][0].decode('utf-8', 'replace') == t0.split(' AND (')[0] and cases[i][1] is cases[i + 1][1]:
                    va, vx, vb = g[i]['verdicts'], g[i + 1]['verdicts'], g[i + 2]['verdicts']
                    if 'B' in (va, vx, vb):
                        if va != 'B' and vb == 'B' and nviol < 3:
                            if chk.violation({'engine': 'filter', 'what': 'x == null AND B accepted although B alone is rejected: B is ignored',
                                              'filter': t0, 'filter_hex': cases[i][0].hex(), 'docs_hex': [d.hex() for d in cases[i][1]],
                                              'signature': 'filter:C15:null-ignores-tail'}):
                                nviol += 1
                        continue
                    for a_, x_, b_ in zip(va, vx, vb):
                        if x_ in 'TF' and b_ in 'TF':
                            want = 'T' if (x_ == 'T' and b_ == 'T') else 'F'
                            if a_ != want and nviol < 3:
                                if chk.violation({'engine': 'filter', 'what': 'x == null AND B is not the conjunction of its parts',
                                                  'filter': t0, 'filter_hex': cases[i][0].hex(), 'docs_hex': [d.hex() for d in cases[i][1]],
                                                  'verdicts': [va, vx, vb], 'signature': 'filter:C15:null-conjunction'}):
                                    nviol += 1
                                break

    if replay is not None:
        cases = [(bytes.fromhex(replay['filter_hex']), [bytes.fromhex(x) for x in replay.get('docs_hex', [])])]
        run(cases, 'replay')
        g, _, _ = run_go(cases)
        print('replay:', g)
    else:
        run(corpus_cases(), 'corpus')
        rng = random.Random(seed * 1000003 + 29)
        t0 = time.time()
        left = n
        while left > 0 and nviol < 3 and time.time() - t0 < (3000 if tier == 'thorough' else 400):
            k = min(left, 1000)
            run(gen_cases(rng, k, prop), 'generated')
            left -= k
        if prop == 'C15' and nviol == 0:
            v = rest_leg(rng, stats)
            if v:
                chk.violation(v)
                nviol += 1
        if (corr or broken) and nviol == 0:
            rng2 = random.Random(seed * 7919 + 5)
            for _ in range(4):
                run(gen_cases(rng2, 1000, prop), 'generated-extended')
                if nviol:
                    break
            chk.notes.append('extended search ran 4000 further cases')
        if nviol == 0:
            if corr:
                corr['unproved'] = 'correspondence between coq/Model/Q*.v (extracted) and query/*.go no longer holds on channel ' + corr['channel']
                chk.violation(corr, tag='correspondence', no_input=True)
            elif broken:
                chk.violation({'engine': 'proof', 'unproved': broken, 'what': 'a proof obligation no longer checks; no failing input found'},
                              tag='proof', no_input=True)
    chk.cov.update({
        'programs': stats['cases'], 'evaluations': stats['docs'], 'distinct_nontrivial': stats['accepted'],
        'rule': 'generated filter texts over a schema with numbers, strings, booleans, arrays, nested objects and optional fields, plus a malformed stream (truncation, token deletion, junk suffixes, keyword truncation, random bytes); non-trivial = accepted filters applied to documents',
        'disagreements_checked': stats['cases'], 'samples': samples,
        'distribution': stats, 'correspondence': 'model and implementation agree on tokens, syntax tree and verdicts' if corr is None else 'DIVERGED',
        'proof_obligations_broken': broken,
    })
    chk.assumptions = [NOTE_FILTER]
    return chk.finish()


def is_junk_case(t):
    """texts built as 'A J' by gen_cases(C15): anything the reference grammar does not accept"""
    return True
