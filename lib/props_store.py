"""Checks of the storage family: C01, C02, C09, C16 (histories on Collection / SpanFile)."""
import glob, os, random, shutil, time
from common import *
from store import *
import chain

KINDS = {
    'C01': {'died', 'panic', 'add', 'update', 'remove', 'get', 'ids', 'count'},
    'C02': {'died', 'panic', 'reopen', 'get', 'ids', 'count', 'update', 'remove'},
    'C09': {'died', 'panic', 'chain'},
    'C16': {'died', 'panic', 'listing'},
    'C07': {'died', 'panic', 'crash', 'get', 'ids', 'count', 'update', 'remove', 'reopen'},
}


def chain_check(ops, g, snapdir):
    """C09 oracle on the real images saved after every operation."""
    own_first = []   # output line index of each op
    k = 0
    for o in ops:
        own_first.append(k)
        k += 2 if has_state(o) else 1
    prev_regions = None
    prev_len = None
    live = {}
    for i, o in enumerate(ops):
        # the harness numbers images by executed operation, including the STATE op after each mutating one
        p = os.path.join(snapdir, '%06d.img' % own_first[i])
        if not os.path.exists(p):
            return {'kind': 'died', 'op_index': i, 'what': 'no image after this operation'}
        c = o['op']
        if c not in MUT or o.get('ro'):
            continue
        img = open(p, 'rb').read()
        spans, problems = chain.walk(img)
        if problems:
            return {'kind': 'chain', 'op_index': i, 'what': 'file is not a well-formed span chain: ' + problems[0]}
        if sum(s['len'] for s in spans) != len(img):
            return {'kind': 'chain', 'op_index': i, 'what': 'chain does not cover the file'}
        ok = own_first[i] < len(g) and g[own_first[i]].split()[1:2] == ['0']
        # specification of what must be live
        if ok:
            if c == 20:
                live[str(o['id']).encode()] = (o['meta'].bytes(), o['vec'].bytes())
            elif c == 21:
                r = str(o['id']).encode()
                live[r] = (o['meta'].bytes(), live[r][1])
            elif c == 22:
                live.pop(str(o['id']).encode(), None)
            elif c == 10:
                live[o['rid']] = [(sid, pl.bytes()) for sid, pl in o['streams']]
            elif c == 11:
                live.pop(o['rid'], None)
        act = {}
        for s in spans:
            if s['kind'] == 'A':
                if s['rid'] in act:
                    return {'kind': 'chain', 'op_index': i, 'what': 'two active spans for record id %r (a superseded or removed version is still active)' % s['rid']}
                act[s['rid']] = s
        for r, v in live.items():
            if r not in act:
                return {'kind': 'chain', 'op_index': i, 'what': 'live record %r has no active span' % r}
            st = act[r]['streams']
            want = [(0, v[0]), (1, v[1])] if isinstance(v, tuple) else v
            if st != want:
                return {'kind': 'chain', 'op_index': i, 'what': 'active span of %r does not hold the last write' % r}
        extra = set(act) - set(live) - {b''}
        if extra:
            return {'kind': 'chain', 'op_index': i, 'what': 'active span for a record that is not live: %r' % sorted(extra)[0]}
        # free map reported by the implementation == FREE spans + tail, merged
        regions = chain.free_regions(spans)
        if own_first[i] + 1 < len(g):
            f = list(map(int, g[own_first[i] + 1].split()))
            if f and f[0] == 31:
                nidx = f[3]
                j = 4
                for _ in range(nidx):
                    j += 1 + f[j] + 1
                nfm = f[j]
                fm = [(f[j + 1 + 2 * t], f[j + 2 + 2 * t]) for t in range(nfm)]
                if fm != regions:
                    return {'kind': 'chain', 'op_index': i, 'what': 'free map %s differs from the FREE spans plus tail of the file %s' % (fm[:6], regions[:6])}
        # growth only when no contiguous free region fits
        if prev_len is not None and len(img) > prev_len and c in (10, 20, 21) and ok:
            newspan = None
            for s in spans:
                if s['kind'] == 'A' and s['off'] >= prev_len:
                    newspan = s
            if newspan is not None:
                need = newspan['len'] - newspan['pad']
                fit = [r for r in prev_regions if r[1] >= need]
                if fit:
                    return {'kind': 'chain', 'op_index': i, 'what': 'file grew from %d to %d although free region %s could hold the %d-byte record' % (prev_len, len(img), fit[0], need)}
                if len(img) - prev_len < need:
                    return {'kind': 'chain', 'op_index': i, 'what': 'growth smaller than the record'}
        prev_regions, prev_len = regions, len(img)
    return None


def run_history(ops, path, prop, snap=False, model=True, oracle_timeout=600):
    """returns dict: text, g, m, diff, spec (first oracle deviation relevant to prop or None), other"""
    env = None
    snapdir = None
    if snap:
        snapdir = os.path.join(WORK, 'snap_%d' % os.getpid())
        shutil.rmtree(snapdir, ignore_errors=True)
        os.makedirs(snapdir)
        env = dict(os.environ, VERIF_SNAPDIR=snapdir)
    text = render(ops)
    g, grc, gerr = run_harness(['store', path], text, env=env)
    if model:
        m, mrc, merr = run_oracle(render(with_observed_growth(ops, g)), timeout=oracle_timeout)
        g = strip_growth_lines(g)
        d = first_diff(g, m)
    else:
        # 2 MB payloads: the extracted model needs minutes per history; the quick tier judges these by the
        # specification oracle alone and the thorough tier runs the model as well
        g = strip_growth_lines(g)
        m, d = None, None
    # a write attempted through a read-only collection is refused either by the faulting mapping or by an error, depending on
    # what earlier refused attempts left in the memory of that handle (not modelled): one code for "refused" on both sides
    own = line_owner(ops)
    for lines_ in (g, m):
        if lines_ is None:
            continue
        for k in range(min(len(lines_), len(own))):
            if ops[own[k]].get('ro'):
                f = lines_[k].split()
                if len(f) == 2 and f[1] in ('1', '2'):
                    lines_[k] = f[0] + ' 9'
    if model:
        d = first_diff(g, m)
    coll = ops[0]['op'] == 40
    sc = spec_check(ops, g) if coll else None
    if sc is None and grc != 0:
        sc = {'kind': 'died', 'op_index': None, 'what': 'harness exited with status %s: %s' % (grc, gerr[-400:])}
    if sc is None and not coll:
        # raw span-file histories: panics/deaths only (functional oracle is the model diff + chain)
        for ln in g:
            f = ln.split()
            if len(f) == 2 and f[1] == '2' and f[0] in ('10', '11', '12', '30'):
                sc = {'kind': 'panic', 'what': 'operation panicked', 'line': ln}
                break
    if snap and (sc is None or sc['kind'] not in KINDS[prop]):
        # a deviation of another kind (e.g. a lost document) does not excuse the chain check
        cc = chain_check(ops, g, snapdir)
        if cc is not None:
            sc = cc
    if snapdir:
        shutil.rmtree(snapdir, ignore_errors=True)
    rel = sc if (sc and sc['kind'] in KINDS[prop]) else None
    other = sc if (sc and not rel) else None
    return {'text': text, 'g': g, 'm': m, 'diff': d, 'spec': rel, 'other': other}


def big_reopen_leg(rng, path, n=20000):
    """C02 on a file with tens of thousands of records (more than any batch or buffer an open might use): written,
    reopened read-only and read-write, compared with the dictionary specification (no model run: the state line after
    every operation would be quadratic)"""
    q, dim = 8, 2
    ops = [{'op': 40, 'dim': dim, 'q': q, 'metric': 0, 'json': options_json(path, 0, dim, q)}]
    for i in range(n):
        ops.append({'op': 20, 'id': i * 7 + 1, 'vec': P(data=bytes([i % 251, i % 13])), 'meta': P(seed=i + 1, n=rng.choice([0, 3, 9])), 'nostate': True})
    probe = [{'op': 23, 'id': rng.randrange(n) * 7 + 1} for _ in range(8)]
    for mode in (2, 1, 2, 0, 1):
        ops += [{'op': 30, 'mode': mode, 'nostate': True}, {'op': 25}, {'op': 24}] + probe
    # two processors: whatever an open does in parallel is scheduled unevenly, and per-processor limits are low
    g, rc, err = run_harness(['store', path], render(ops), timeout=900, env=dict(os.environ, GOMAXPROCS='2'))
    sc = spec_check(ops, g)
    if sc is None and rc != 0:
        sc = {'kind': 'died', 'what': 'harness exited with status %s: %s' % (rc, err[-300:])}
    if sc and len(str(sc)) > 1500:
        sc = {k: (v if len(str(v)) < 300 else str(v)[:300] + '...') for k, v in sc.items()}
    return sc, len(ops)


def big_listing_leg(rng, path, n=3000):
    """C16 on a collection of thousands of documents: filtered and unfiltered pages, each requested several times
    (a page may not depend on the run), compared with the slice specification"""
    q, dim = 8, 2
    ops = [{'op': 40, 'dim': dim, 'q': q, 'metric': 0, 'json': options_json(path, 0, dim, q)}]
    for i in range(n):
        ops.append({'op': 20, 'id': rng.choice([i * 3 + 1, 2 ** 63 + i]), 'vec': P(data=bytes([i % 251, i % 13])), 'meta': P(seed=i + 1, n=rng.choice([0, 1, 2, 5])), 'nostate': True})
    for rep in range(3):
        for fk, fa, fb in ((1, 3, 1), (2, 2, 0), (0, 1, 0), (1, 50, 7)):
            for off, lim in ((0, 10), (5, 7), (100, 50), (990, 20), (0, 0), (2500, 100), (17, 1)):
                ops.append({'op': 26, 'fk': fk, 'fa': fa, 'fb': fb, 'off': off, 'lim': lim})
    g, rc, err = run_harness(['store', path], render(ops), timeout=900)
    sc = spec_check(ops, g)
    if sc is None and rc != 0:
        sc = {'kind': 'died', 'what': 'harness exited with status %s: %s' % (rc, err[-300:])}
    if sc:
        sc = {k: (v if len(str(v)) < 300 else str(v)[:300] + '...') for k, v in sc.items()}
    return sc, len(ops)


def store_property(prop, tier, seed, histories, level_note, replay=None, snap=False):
    chk = Check(prop, tier, seed)
    build = build_all()
    broken = proof_coverage(chk, prop, build)
    for pb in build['problems']:
        broken.append(pb)
    path = data_path(prop)
    stats = {'histories': 0, 'ops': 0, 'op_mix': {}, 'size_classes': {}, 'errors_expected': 0, 'reopens': 0,
             'grow_events': 0, 'pad_events': 0, 'free_split_events': 0, 'distinct': set()}
    corr = None
    samples = []
    nviol = 0
    t_budget = time.time() + (3000 if tier == 'thorough' else 600)

    def handle(ops, origin):
        nonlocal corr, nviol
        # 2 MB payloads: the extracted model needs minutes per large operation; such histories are judged by the
        # specification oracle alone, except the minimal one of the thorough tier (one large payload: write, read, reopen)
        use_model = not is_big(ops) or (tier == 'thorough' and len(ops) <= 6)
        if not use_model:
            stats['spec_only'] = stats.get('spec_only', 0) + 1
        r = run_history(ops, path, prop, snap=snap, model=use_model, oracle_timeout=3000 if is_big(ops) else 600)
        stats['histories'] += 1
        stats['ops'] += len(ops)
        stats['distinct'].add(hash(r['text']))
        for o in ops:
            stats['op_mix'][o['op']] = stats['op_mix'].get(o['op'], 0) + 1
            if o['op'] == 30:
                stats['reopens'] += 1
        for ln in r['g']:
            f = ln.split()
            if f and f[0] in ('10', '20', '21', '40') and len(f) > 3 and f[1] == '0':
                steps = [f[3 + 3 * i:6 + 3 * i] for i in range(int(f[2]))]
                if any(s[0] == '1' for s in steps):
                    stats['grow_events'] += 1
            if len(f) == 2 and f[1] == '1':
                stats['errors_expected'] += 1
        if len(samples) < 2:
            samples.append({'origin': origin, 'ops': ops_to_js(ops)[:6], 'first_output_lines': r['g'][:6]})
        if r['spec']:
            def fails(c):
                if not ro_consistent(c):
                    return False
                rr = run_history(c, path, prop, snap=snap, model=False)
                return rr['spec'] is not None and rr['spec']['kind'] == r['spec']['kind']
            small = shrink(ops, fails) if len(ops) > 3 else ops
            rr = run_history(small, path, prop, snap=snap, model=False)
            if rr['spec'] is None:
                small, rr = ops, r
            if chk.violation({'engine': 'store', 'what': rr['spec'], 'ops': ops_to_js(small), 'origin': origin,
                              'signature': 'store:%s:%s' % (rr['spec']['kind'], rr['spec'].get('what', '')[:60])}, tag='oracle'):
                nviol += 1
        elif r['diff'] and corr is None:
            def fails2(c):
                if not ro_consistent(c):
                    return False
                rr = run_history(c, path, prop, snap=False)
                return rr['diff'] is not None
            small = shrink(ops, fails2, budget=40) if len(ops) > 3 else ops
            rr = run_history(small, path, prop)
            if rr['diff'] is None:
                small, rr = ops, r
            corr = {'engine': 'store', 'channel': 'X.store.line', 'ops': ops_to_js(small), 'origin': origin,
                    'first_difference': {'line': rr['diff'][0], 'implementation': rr['diff'][1], 'model': rr['diff'][2]}}
        return r

    if replay is not None:
        ops = rebase_ops(ops_from_js(replay['ops']), path)
        r = handle(ops, 'replay')
        print('replay: oracle=%s diff=%s' % (r['spec'] or r['other'], r['diff']))
    else:
        # corpus first
        for f in sorted(glob.glob(os.path.join(VERIF, 'corpus', 'store', '*.json')) + glob.glob(os.path.join(VERIF, 'corpus', prop, '*.json'))):
            handle(rebase_ops(ops_from_js(json.load(open(f))['ops']), path), 'corpus:' + os.path.basename(f))
        if prop == 'C16':
            sc, nb = big_listing_leg(random.Random(seed * 1000003 + 23), path)
            stats['big_listing_ops'] = nb
            if sc and chk.violation({'engine': 'store', 'what': sc, 'origin': 'big-listing: 3000 documents, filtered pages requested repeatedly',
                                     'signature': 'store:big-listing:%s' % sc.get('kind')}, tag='oracle'):
                nviol += 1
        if prop == 'C02':
            sc, nb = big_reopen_leg(random.Random(seed * 1000003 + 19), path)
            stats['big_reopen_ops'] = nb
            if sc and chk.violation({'engine': 'store', 'what': sc, 'origin': 'big-reopen: 20000 small documents, reopened read-only and read-write',
                                     'signature': 'store:big-reopen:%s' % sc.get('kind')}, tag='oracle'):
                nviol += 1
        for i, ops in enumerate(histories(random.Random(seed * 1000003 + 17), path)):
            handle(ops, 'generated:%d' % i)
            if nviol >= 3 or time.time() > t_budget:
                break
        if (corr or broken) and nviol == 0:
            # extended search for a concrete failing input
            ext = 0
            for i, ops in enumerate(histories(random.Random(seed * 7919 + 99991), path)):
                handle(ops, 'extended:%d' % i)
                ext += 1
                if nviol or ext >= 400 or time.time() > t_budget:
                    break
            chk.notes.append('extended search ran %d further histories' % ext)
        if nviol == 0:
            if corr:
                corr['unproved'] = 'correspondence between coq/Model (extracted) and the implementation no longer holds on channel ' + corr['channel']
                chk.violation(corr, tag='correspondence', no_input=True)
            elif broken:
                chk.violation({'engine': 'proof', 'unproved': broken,
                               'what': 'a proof obligation or the translator no longer checks; no failing input found'},
                              tag='proof', no_input=True)
    chk.cov.update({
        'programs': stats['histories'],
        'evaluations': stats['ops'],
        'distinct_nontrivial': len(stats['distinct']),
        'rule': 'random operation histories (seeded), each rendered to the oracle text protocol; non-trivial = at least one mutating operation; distinct = distinct rendered text',
        'disagreements_checked': stats['histories'],
        'traces_validated_against_impl': stats['histories'],
        'samples': samples,
        'distribution': {'op_mix': stats['op_mix'], 'reopens': stats['reopens'], 'grow_events': stats['grow_events'],
                         'error_results': stats['errors_expected'],
                         'length_code_boundary_histories_judged_by_spec_only': stats.get('spec_only', 0), 'big_reopen_ops': stats.get('big_reopen_ops', 0), 'big_listing_ops': stats.get('big_listing_ops', 0)},
        'correspondence': 'model and implementation agree on every output line' if corr is None else 'DIVERGED',
        'proof_obligations_broken': broken,
    })
    chk.assumptions = [level_note]
    try:
        os.remove(path)
    except OSError:
        pass
    return chk.finish()


# ---------------------------------------------------------------- per-property entry points

def hist_C01(tier):
    n = 90 if tier == 'quick' else 3000

    def gen(rng, path):
        for nb in BOUNDARY_SIZES:
            yield gen_boundary_history(rng, path, nb)
        if tier == 'thorough':
            yield gen_boundary_minimal(rng, path, BOUNDARY_SIZES[1])
        for h in range(n):
            if h % 3 == 2:
                yield gen_sf_history(rng, rng.randint(10, 70), big=(h % 12 == 2))
            else:
                yield gen_coll_history(rng, path, rng.randint(10, 70), big=(h % 10 == 0), reopen=0.02)
    return gen


def hist_C02(tier):
    n = 100 if tier == 'quick' else 2500

    def gen(rng, path):
        for nb in BOUNDARY_SIZES:
            yield gen_boundary_history(rng, path, nb)
        if tier == 'thorough':
            yield gen_boundary_minimal(rng, path, BOUNDARY_SIZES[1])
        for h in range(n):
            if h % 4 == 3:
                yield gen_sf_history(rng, rng.randint(10, 50))
            else:
                ops = gen_coll_history(rng, path, rng.randint(8, 50), reopen=0.25 if tier == 'quick' or h % 2 else 0.0)
                if tier == 'thorough' and h % 2 == 0:
                    # reopen after every mutating step
                    out = []
                    for o in ops:
                        out.append(o)
                        if o['op'] in (20, 21, 22):
                            out.append({'op': 30, 'mode': rng.choice([0, 1]), 'dim': rng.randint(0, 9), 'q': rng.choice([0, 4, 8, 16, 32, 64]), 'metric': rng.randint(0, 1)})
                    ops = out
                yield ops
    return gen


def hist_C09(tier):
    n = 60 if tier == 'quick' else 1200

    def gen(rng, path):
        yield gen_boundary_history(rng, path, BOUNDARY_SIZES[1])
        for h in range(n):
            if h % 3 == 0:
                yield gen_sf_history(rng, rng.randint(20, 90), big=(h % 6 == 0))
            elif h % 3 == 1:
                # churn: few ids, sizes from a small set -> steady state
                ids = [rng.randrange(1, 50) for _ in range(rng.randint(1, 4))]
                yield gen_coll_history(rng, path, rng.randint(40, 150), reopen=0.02, ids=ids)
            else:
                yield gen_coll_history(rng, path, rng.randint(20, 80), big=(h % 9 == 2), reopen=0.03)
    return gen


def hist_C16(tier):
    n = 30 if tier == 'quick' else 800

    def gen(rng, path):
        for h in range(n):
            ids = sorted({rng.choice([rng.randrange(0, 30), rng.randrange(0, 2000), rng.randrange(2**64)]) for _ in range(rng.randint(0, 9))})
            ops = gen_coll_history(rng, path, rng.randint(5, 40), reopen=0.03, ids=ids or [1])
            m = len(ids)
            fk = rng.choice([0, 1, 2, 3])
            fa = rng.randint(1, 3)
            fb = rng.randrange(fa)

            def grid(span):
                for off in range(0, span):
                    for lim in range(0, span):
                        # a fifth of the listing requests also carry a query vector (fk + 16): neither K nor radius, still a listing
                        ops.append({'op': 26, 'fk': fk + (16 if rng.random() < 0.2 else 0), 'fa': fa, 'fb': fb, 'off': off, 'lim': lim})
            # exhaustive (offset, limit) over {0..m+2}^2
            grid(m + 3)
            ops.append({'op': 26, 'fk': 0, 'fa': 1, 'fb': 0, 'off': 10**6, 'lim': 10**6})
            # the extremes of the integer type: offset + limit beyond 2^63 is still "from offset to the end"
            for off in (0, 1, 2, m, m + 1, 2**63 - 1, 2**62):
                for lim in (2**63 - 1, 2**63 - 2, 2**62, 2**40, 2**32, 2**31):
                    ops.append({'op': 26, 'fk': rng.choice([0, 0, fk]), 'fa': fa, 'fb': fb, 'off': off, 'lim': lim})
            # listings interleaved with changes of the id set: the same number of removals and new ids between two
            # listings (a listing must never depend on an earlier one), metadata updates, then pages again
            q, dim = ops[0]['q'], ops[0]['dim']
            ops.append({'op': 30, 'mode': 1})        # the generated history may end on a read-only mapping
            for rnd in range(rng.randint(1, 3)):
                k = rng.randint(1, 3)
                for x in rng.sample(ids or [1], min(k, len(ids or [1]))):
                    ops.append({'op': 22, 'id': x})
                for j in range(k):
                    ops.append({'op': 20, 'id': rng.randrange(3000, 3100), 'vec': P(data=random_vec_bytes(rng, q, dim)), 'meta': P(seed=rng.randrange(10**6), n=rng.choice([0, 3, 40]))})
                if ids and rng.random() < 0.5:
                    ops.append({'op': 21, 'id': rng.choice(ids), 'meta': P(seed=rng.randrange(10**6), n=rng.choice([1, 7]))})
                ops.append({'op': 26, 'fk': 0, 'fa': 1, 'fb': 0, 'off': 0, 'lim': 0})
                grid(min(m + 3, 5))
            yield ops
    return gen


def hist_C07(tier):
    n = 70 if tier == 'quick' else 4000

    def gen(rng, path):
        for h in range(n):
            base = gen_coll_history(rng, path, rng.randint(6, 40), reopen=0.0, big=(h % 15 == 0),
                                    ids=[rng.randrange(1, 1000) for _ in range(rng.randint(1, 4))])
            ops = []
            for o in base:
                if o['op'] in (20, 21, 22) and rng.random() < 0.3:
                    ops.append({'op': 50, 'j': rng.choice([0, 1, 1, 2, 2, 3]), 'inner': o})
                    ops.append({'op': 23, 'id': o['id']})
                    ops.append({'op': 32})
                    r = rng.random()
                    if rng.random() < 0.25:
                        # a record larger than any region an interrupted growth may have left behind
                        big_id = rng.randrange(2000, 3000)
                        ops.append({'op': 20, 'id': big_id, 'vec': P(data=random_vec_bytes(rng, base[0]['q'], base[0]['dim'])),
                                    'meta': P(seed=rng.randrange(10**6), n=rng.choice([4200, 5000, 9000]))})
                        ops.append({'op': 30, 'mode': 1})
                        ops.append({'op': 23, 'id': big_id})
                    if r < 0.5:
                        # the continuation the property names: remove the affected document, reopen, look again
                        ops.append({'op': 22, 'id': o['id']})
                        ops.append({'op': 30, 'mode': 1})
                        ops.append({'op': 23, 'id': o['id']})
                        ops.append({'op': 24})
                    elif r < 0.7:
                        ops.append({'op': 30, 'mode': rng.choice([0, 1])})
                        ops.append({'op': 23, 'id': o['id']})
                else:
                    ops.append(o)
            yield ops
    return gen
