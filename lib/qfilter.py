"""Filter engine: generation of (filter text, documents), encoding for the extracted Coq model,
comparison with the Go implementation, and an independent reference semantics (README)."""
import json, math, random, re, struct
from common import *

# ---------------------------------------------------------------- encoding for the model

def fbits(x):
    return struct.unpack('>Q', struct.pack('>d', float(x)))[0]


def go_parse_float(lit):
    """strconv.ParseFloat as the parser uses it: (ok, bits)"""
    t = lit.decode('latin1')
    try:
        if t[:2].lower() == '0x':
            return (0, 0)
        v = float(t)
    except ValueError:
        return (0, 0)
    if v != v or v in (float('inf'), float('-inf')):
        return (0, 0)
    return (1, fbits(v))


class BadJSON(Exception):
    pass


def _bad_const(x):
    raise BadJSON(x)


def decode_doc(b):
    """encoding/json into interface{}: returns python value or raises BadJSON"""
    try:
        v = json.loads(b.decode('utf-8'), parse_constant=_bad_const)
    except (ValueError, BadJSON, UnicodeDecodeError, RecursionError):
        raise BadJSON()
    def chk(x):
        if isinstance(x, float) and (x != x or x in (float('inf'), float('-inf'))):
            raise BadJSON()
        if isinstance(x, int) and not isinstance(x, bool):
            try:
                f = float(x)
            except OverflowError:
                raise BadJSON()
        if isinstance(x, list):
            for y in x:
                chk(y)
        if isinstance(x, dict):
            for y in x.values():
                chk(y)
    chk(v)
    return v


def jv_toks(v):
    if v is None:
        return [0]
    if isinstance(v, bool):
        return [1, 1 if v else 0]
    if isinstance(v, (int, float)):
        return [2, fbits(v)]
    if isinstance(v, str):
        b = v.encode('utf-8')
        return [3, len(b)] + list(b)
    if isinstance(v, list):
        t = [4, len(v)]
        for x in v:
            t += jv_toks(x)
        return t
    if isinstance(v, dict):
        t = [5, len(v)]
        for k, x in v.items():
            kb = k.encode('utf-8')
            t += [len(kb)] + list(kb) + jv_toks(x)
        return t
    raise TypeError(v)


def strings_in(v, out):
    if isinstance(v, str):
        out.add(v.encode('utf-8'))
    elif isinstance(v, list):
        for x in v:
            strings_in(x, out)
    elif isinstance(v, dict):
        for x in v.values():
            strings_in(x, out)


def py_regex(pat, subj):
    """0 false, 1 true, 2 invalid pattern (patterns are generated from the RE2/Python common subset)"""
    try:
        return 1 if re.search(pat.decode('utf-8'), subj.decode('utf-8')) else 0
    except (re.error, UnicodeDecodeError, RecursionError, OverflowError):
        return 2


def model_case_toks(text, docs, num_lits, str_lits):
    t = [2, len(text)] + list(text)
    lits = sorted(set(num_lits))
    t += [len(lits)]
    for l in lits:
        ok, bits = go_parse_float(l)
        t += [len(l)] + list(l) + [ok, bits]
    decoded = []
    subjects = set(str_lits)
    for d in docs:
        try:
            v = decode_doc(d)
            decoded.append((True, v))
            strings_in(v, subjects)
        except BadJSON:
            decoded.append((False, None))
    pairs = [(p, s) for p in sorted(set(str_lits)) for s in sorted(subjects)]
    if len(pairs) > 400:
        pairs = pairs[:400]
    t += [len(pairs)]
    for p, s in pairs:
        t += [len(p)] + list(p) + [len(s)] + list(s) + [py_regex(p, s)]
    t += [len(docs)]
    for ok, v in decoded:
        t += [1] + jv_toks(v) if ok else [0]
    return t


def parse_model_tokens_line(f):
    """'1 n type len bytes...' -> list of (type, literal bytes)"""
    if len(f) == 2 and f[1] == 999:
        return None
    n = f[1]
    out = []
    i = 2
    for _ in range(n):
        ty, ln = f[i], f[i + 1]
        out.append((ty, bytes(f[i + 2:i + 2 + ln])))
        i += 2 + ln
    return out


def hx(b):
    return b.hex() if b else '-'


def model_ast_string(f, i=0):
    """numeric serialization -> the harness' canonical AST string; returns (string, next index)"""
    k = f[i]
    if k == 1:
        ln = f[i + 1]
        op = bytes(f[i + 2:i + 2 + ln])
        j = i + 2 + ln
        if f[j] == 1:
            l, j = model_ast_string(f, j + 1)
        else:
            l, j = 'nil', j + 1
        r, j = model_ast_string(f, j)
        return 'E(%s,%s,%s)' % (hx(op), l, r), j
    if k == 2:
        ln = f[i + 1]
        return 'I(%s)' % hx(bytes(f[i + 2:i + 2 + ln])), i + 2 + ln
    if k == 3:
        t = f[i + 1]
        if t == 0:
            return 'V(null)', i + 2
        if t == 1:
            return 'V(true)' if f[i + 2] else 'V(false)', i + 3
        if t == 2:
            return 'V(n%d)' % f[i + 2], i + 3
        ln = f[i + 2]
        return 'V(s%s)' % hx(bytes(f[i + 3:i + 3 + ln])), i + 3 + ln
    if k == 4:
        ln = f[i + 1]
        name = bytes(f[i + 2:i + 2 + ln])
        j = i + 2 + ln
        n = f[j]
        j += 1
        args = []
        for _ in range(n):
            a, j = model_ast_string(f, j)
            args.append(a)
        return 'F(%s;%s)' % (hx(name), ','.join(args)), j
    if k == 5:
        ln = f[i + 1]
        return 'P(%s)' % hx(bytes(f[i + 2:i + 2 + ln])), i + 2 + ln
    if k == 6:
        n = f[i + 1]
        j = i + 2
        els = []
        for _ in range(n):
            a, j = model_ast_string(f, j)
            els.append(a)
        return 'L(%s)' % ','.join(els), j
    raise ValueError(k)


def run_model(cases, lits_by_case, chunk=150):
    """cases: list of (text bytes, [doc bytes]); lits_by_case: list of (num_lits, str_lits).
    returns per case dict(tokens, ast, verdicts)"""
    res = []
    for start in range(0, len(cases), chunk):
        part = cases[start:start + chunk]
        toks = [3, len(part)]
        for (text, docs), (nl, sl) in zip(part, lits_by_case[start:start + chunk]):
            c = model_case_toks(text, docs, nl, sl)
            toks += [len(c)] + c
        lines, rc, err = run_oracle(' '.join(map(str, toks)) + '\n', timeout=1200)
        out = []
        cur = []
        for ln in lines:
            f = list(map(int, ln.split()))
            if f == [777]:
                out.append(cur)
                cur = []
            else:
                cur.append(f)
        while len(out) < len(part):
            out.append([])          # the oracle died: reported as missing output
        for c in out:
            d = {'tokens': None, 'ast': None, 'verdicts': None}
            for f in c:
                if f[0] == 1:
                    d['tokens'] = parse_model_tokens_line(f)
                elif f[0] == 2:
                    d['ast'] = model_ast_string(f, 2)[0] if f[1] == 0 else ('ERR' if f[1] == 1 else 'FUEL')
                elif f[0] == 3:
                    d['verdicts'] = 'B' if f[1:] == [9] else ''.join('FTE'[x] for x in f[2:])
            res.append(d)
    return res


def model_two_pass(cases):
    """pass 1 lexes (no tables) to learn the number and string literals, pass 2 evaluates"""
    p1 = run_model(cases, [([], [])] * len(cases))
    lits = []
    for d in p1:
        nl, sl = [], []
        for ty, lit in (d['tokens'] or []):
            if ty == 2:
                nl.append(lit)
            elif ty == 1:
                sl.append(lit)
        lits.append((nl, sl))
    return run_model(cases, lits)


def run_go(cases):
    inp = '\n'.join(' '.join([hx(t)] + [hx(d) for d in docs]) for t, docs in cases) + '\n'
    lines, rc, err = run_harness(['filter'], inp, timeout=1200)
    hang = [l for l in lines if l.startswith('HANG ')]
    if hang:
        hx_ = hang[0].split()[1]
        err = 'HANG ' + (bytes.fromhex(hx_) if hx_ != '-' else b'').decode('utf-8', 'replace')
        lines = [l for l in lines if not l.startswith('HANG ')]
    res = []
    for i in range(0, len(lines) - 6, 7):
        T, A, V, S, R, H, PP = lines[i:i + 7]
        d = {}
        f = T.split()[1:]
        d['tokens'] = None if f == ['PANIC'] else [(int(f[j]), bytes.fromhex(f[j + 1]) if f[j + 1] != '-' else b'') for j in range(0, len(f), 2)]
        d['ast'] = A[2:]
        d['verdicts'] = ''.join(V.split()[1:])
        d['search'] = ''.join(S.split()[1:])
        d['again'] = d['verdicts'] if R.split()[1:] == ['same'] else ''.join(R.split()[1:])
        d['history'] = ' '.join(H.split()[1:])
        d['concurrent'] = ' '.join(PP.split()[1:])
        res.append(d)
    return res, rc, err


# ---------------------------------------------------------------- generation

FIELDS = {
    'age': 'num', 'score': 'num', 'count': 'num',
    'name': 'str', 'status': 'str', 'email': 'str',
    'active': 'bool', 'verified': 'bool',
    'tags': 'arrs', 'nums': 'arrn', 'items': 'arro',
    'user': 'obj', 'opt': 'any',
}
STRS = ['active', 'inactive', 'John', 'Johnson', 'son', 'a', '', 'x y', 'urgent', 'admin', 'it@example.com', 'Zoë', 'a"b', "it's",
        # a quote of the other style followed, inside the same literal, by a run of blanks / a tab / a newline, and the collapsed variants
        "O'Brien  Jr", "O'Brien Jr", 'a"b  c', 'a"b c', "it's\tx", "it's x", 'two  blanks', 'two blanks', "l'un\n deux", "l'un deux"]
NUMS = [0, 1, 2, 5, 17, 18, 19, 100, 0.5, 2.5, 1e3, 3]


def gen_doc(rng):
    d = {}
    for k, ty in FIELDS.items():
        if rng.random() < 0.25:
            continue            # optional field absent
        if ty == 'num':
            d[k] = rng.choice(NUMS + [-1, -0.0, 1e20])
        elif ty == 'str':
            d[k] = rng.choice(STRS)
        elif ty == 'bool':
            d[k] = rng.random() < 0.5
        elif ty == 'arrs':
            d[k] = [rng.choice(STRS) for _ in range(rng.randint(0, 4))]
        elif ty == 'arrn':
            d[k] = [rng.choice(NUMS) for _ in range(rng.randint(0, 4))]
        elif ty == 'arro':
            d[k] = [{'price': rng.choice(NUMS), 'sku': rng.choice(STRS)} for _ in range(rng.randint(0, 3))]
        elif ty == 'obj':
            u = {}
            if rng.random() < 0.8:
                u['age'] = rng.choice(NUMS)
            if rng.random() < 0.7:
                u['profile'] = {'completed': rng.random() < 0.5, 'nick': rng.choice(STRS)}
            if rng.random() < 0.5:
                u['friends'] = [rng.choice(STRS) for _ in range(rng.randint(0, 6))]
            if rng.random() < 0.5:
                # an object member that is itself called "length" (objects have no built-in length)
                u['length'] = rng.choice(NUMS)
                if 'profile' in u and rng.random() < 0.5:
                    u['profile']['length'] = rng.choice(NUMS + [3, 2])
            d[k] = u
        else:
            d[k] = rng.choice([None, 1, 'x', True, [1], {'a': 1}])
    return d


def q(rng, s):
    """quote a string literal in one of the two styles (no quote char of that style, no backslash)"""
    if "'" in s and '"' in s:
        s = s.replace('"', '')
    if "'" in s:
        return '"%s"' % s
    if '"' in s:
        return "'%s'" % s
    return rng.choice(['"%s"', "'%s'"]) % s


def numlit(rng, x=None):
    x = rng.choice(NUMS) if x is None else x
    if x == int(x) and abs(x) < 1e15:
        return rng.choice([str(int(x)), str(int(x)) + '.0', str(int(x)) + 'e0'])
    return repr(float(x))


def ws(rng):
    return rng.choice([' ', ' ', '  ', '\t', '\n '])


def gen_path(rng):
    """(text, kind) of a field path"""
    r = rng.random()
    if r < 0.55:
        k = rng.choice(list(FIELDS))
        return k, FIELDS[k]
    if r < 0.65:
        return 'user.age', 'num'
    if r < 0.72:
        return 'user.profile.completed', 'bool'
    if r < 0.78:
        return 'user.profile.nick', 'str'
    if r < 0.82:
        return 'user.friends.length', 'num'
    if r < 0.84:
        return rng.choice(['user.length', 'user.profile.length']), 'num'
    if r < 0.88:
        return rng.choice(['tags.length', 'name.length', 'nums.length']), 'num'
    if r < 0.91:
        return 'nums[%d]' % rng.randint(0, 3), 'num'
    if r < 0.93:
        # a fractional subscript is rounded to the nearest element; one that rounds to the length is out of range
        return 'nums[%s]' % rng.choice(['0.5', '1.5', '2.5', '3.5', '0.25', '0.75', '2.49', '3.75']), 'num'
    if r < 0.97:
        return 'items[%d].price' % rng.randint(0, 2), 'num'
    return 'tags[%d]' % rng.randint(0, 3), 'str'


def gen_cond(rng):
    p, ty = gen_path(rng)
    r = rng.random()
    if r < 0.12:
        return p + ws(rng) + rng.choice(['EXISTS', 'DOES NOT EXIST', 'DOES NOT EXIST', 'DOES  NOT EXIST', 'DOES NOT\tEXIST', 'DOES\nNOT EXIST'])
    if ty == 'num':
        if r < 0.8:
            return p + ws(rng) + rng.choice(['==', '!=', '<', '<=', '>', '>=']) + ws(rng) + numlit(rng)
        return p + ws(rng) + rng.choice(['IN', 'NOT IN']) + ' [' + ', '.join(numlit(rng) for _ in range(rng.randint(0, 4))) + ']'
    if ty == 'str':
        if r < 0.45:
            return p + ws(rng) + rng.choice(['==', '!=', '<', '<=', '>', '>=']) + ws(rng) + q(rng, rng.choice(STRS))
        if r < 0.75:
            return p + ws(rng) + rng.choice(['CONTAINS', 'STARTS_WITH', 'ENDS_WITH']) + ws(rng) + q(rng, rng.choice(STRS))
        if r < 0.88:
            return p + ws(rng) + 'MATCHES' + ws(rng) + q(rng, rng.choice(['^J', 'son$', 'a.*e', '[a-c]+', 'x|y', '(', 'o+', '^$']))
        return p + ws(rng) + rng.choice(['IN', 'NOT IN']) + ' [' + ', '.join(q(rng, rng.choice(STRS)) for _ in range(rng.randint(0, 4))) + ']'
    if ty == 'bool':
        return p + ws(rng) + rng.choice(['==', '!=']) + ws(rng) + rng.choice(['true', 'false'])
    if ty in ('arrs', 'arrn', 'arro', 'obj'):
        return p + ws(rng) + rng.choice(['EXISTS', 'DOES NOT EXIST', '== null', '!= null'])
    return p + ws(rng) + rng.choice(['== null', '!= null', '== 1', "== 'x'", '== true', 'EXISTS'])


def gen_expr(rng, depth=0):
    r = rng.random()
    if depth >= 3 or r < 0.4:
        return gen_cond(rng)
    if r < 0.6:
        return gen_expr(rng, depth + 1) + ws(rng) + 'AND' + ws(rng) + gen_expr(rng, depth + 1)
    if r < 0.8:
        return gen_expr(rng, depth + 1) + ws(rng) + 'OR' + ws(rng) + gen_expr(rng, depth + 1)
    if r < 0.9:
        return 'NOT' + ws(rng) + '(' + gen_expr(rng, depth + 1) + ')'
    return '(' + ws(rng).strip(' ') + gen_expr(rng, depth + 1) + ')'


JUNK = ['b == 2', 'and zzz', '17', "'lit'", 'zzz', ')', '(', 'AND', 'OR', '==', 'NOT', ']', ',', 'true', 'null', 'x y', '= 1', '!', '&& b == 2',
        "'oops", '"', "'", "' OR zzz == 3", '"tail', "'a' '", "AND b == 'x", '\\', '#', ';', '}', 'b == 2 "']


def mutate_text(rng, t):
    """malformed stream: truncation, token deletion, junk suffix, keyword truncation"""
    r = rng.random()
    if r < 0.3 and len(t) > 1:
        return t[:rng.randrange(1, len(t))]
    if r < 0.5:
        parts = t.split(' ')
        if len(parts) > 1:
            del parts[rng.randrange(len(parts))]
        return ' '.join(parts)
    if r < 0.8:
        return t + ' ' + rng.choice(JUNK)
    if r < 0.9:
        return rng.choice(['x DOES', 'x DOES NOT', 'x DOES NOT EXIS', 'x DOES NOT EXISTS', 'DOES NOT EXIST', 'x DOES  NOT EXIST', "'unterminated", '"a\\', 'a == 1e', 'a == 0x1F', 'a == 1.2.3', 'a[*]', 'a[', ':p == 1', 'f(a, b)', 'LENGTH(a)', 'a.b.', 'a..b', '((((a == 1))))', 'a == 1 \x00 b == 2'])
    return ''.join(rng.choice('ab ()[]=!<>\'".,:*1e+-_ANDORT\\') for _ in range(rng.randint(0, 25)))


def bad_docs(rng):
    return rng.choice([b'', b'notjson', b'[1,2,3]', b'17', b'"str"', b'null', b'{"a":', b'{"age":"x"}', b'{"age":1e400}', b'{"age":NaN}', b'{"name":5,"tags":7,"nums":"s","user":[1]}', b'\xff\xfe', b'{"a":1} trailing', b'true'])


# ---------------------------------------------------------------- reference semantics (README "Query Filter Language")

class Untyped(Exception):
    """the expression is outside the well-typed fragment for this document"""


def ref_parse(text):
    """independent parser for the documented grammar: returns an AST or None if the text is not in it"""
    toks = re.findall(r'''\s*(DOES NOT EXIST|NOT IN|STARTS_WITH|ENDS_WITH|[A-Za-z_][A-Za-z0-9_]*|\d+\.\d+(?:[eE][+-]?\d+)?|\d+(?:[eE][+-]?\d+)?|"[^"\\]*"|'[^'\\]*'|==|!=|<=|>=|[()\[\],.<>])''', text)
    if re.sub(r'\s+', '', ''.join(toks)) != re.sub(r'\s+', '', text):      # every non-blank character belongs to a token (literals may hold tabs and newlines)
        return None
    pos = [0]

    def peek():
        return toks[pos[0]] if pos[0] < len(toks) else None

    def take():
        pos[0] += 1
        return toks[pos[0] - 1]

    def p_or():
        l = p_and()
        while peek() == 'OR':
            take()
            l = ('or', l, p_and())
        return l

    def p_and():
        l = p_unary()
        while peek() == 'AND':
            take()
            l = ('and', l, p_unary())
        return l

    def p_unary():
        if peek() == 'NOT':
            take()
            if peek() != '(':
                raise SyntaxError
            take()
            e = p_or()
            if take() != ')':
                raise SyntaxError
            return ('not', e)
        if peek() == '(':
            take()
            e = p_or()
            if take() != ')':
                raise SyntaxError
            return e
        return p_cond()

    def p_lit():
        t = take()
        if t is None:
            raise SyntaxError
        if t[0] in '"\'':
            return ('lit', t[1:-1])
        if t in ('true', 'false'):
            return ('lit', t == 'true')
        if t == 'null':
            return ('lit', None)
        if t[0].isdigit():
            return ('lit', float(t))
        raise SyntaxError

    def p_path():
        t = take()
        if t is None or not re.match(r'[A-Za-z_]', t) or t in ('AND', 'OR', 'NOT', 'IN', 'EXISTS'):
            raise SyntaxError
        p = [('key', t)]
        while peek() in ('.', '['):
            if take() == '.':
                p.append(('key', take()))
            else:
                p.append(('idx', int(math.floor(float(take()) + 0.5))))       # int(math.Round(x)) for x >= 0
                if take() != ']':
                    raise SyntaxError
        return ('path', p)

    def p_cond():
        p = p_path()
        op = take()
        if op in ('EXISTS', 'DOES NOT EXIST'):
            return ('exists', p, op == 'EXISTS')
        if op in ('IN', 'NOT IN'):
            if take() != '[':
                raise SyntaxError
            items = []
            if peek() != ']':
                items.append(p_lit())
                while peek() == ',':
                    take()
                    items.append(p_lit())
            if take() != ']':
                raise SyntaxError
            return ('in', p, [x[1] for x in items], op == 'IN')
        if op in ('==', '!=', '<', '<=', '>', '>=', 'CONTAINS', 'STARTS_WITH', 'ENDS_WITH', 'MATCHES'):
            return ('cmp', op, p, p_lit())
        raise SyntaxError

    try:
        e = p_or()
        if pos[0] != len(toks):
            return None
        return e
    except (SyntaxError, ValueError, TypeError, IndexError):
        return None


MISSING = object()


def ref_resolve(path, doc):
    cur = doc
    for kind, k in path[1]:
        if kind == 'key':
            if isinstance(cur, dict):
                if k not in cur:
                    return MISSING
                cur = cur[k]
            elif k == 'length' and isinstance(cur, (list, str)):
                cur = float(len(cur.encode('utf-8')) if isinstance(cur, str) else len(cur))
            else:
                return MISSING
        else:
            if isinstance(cur, list) and 0 <= k < len(cur):
                cur = cur[k]
            else:
                return MISSING
    return cur


def isnum(x):
    return isinstance(x, (int, float)) and not isinstance(x, bool)


def ref_eval(e, doc):
    """truth value per the documentation; raises Untyped outside the fragment the property covers"""
    k = e[0]
    if k == 'and':
        a, b = ref_eval(e[1], doc), ref_eval(e[2], doc)
        return a and b
    if k == 'or':
        a, b = ref_eval(e[1], doc), ref_eval(e[2], doc)
        return a or b
    if k == 'not':
        return not ref_eval(e[1], doc)
    if k == 'exists':
        return (ref_resolve(e[1], doc) is not MISSING) == e[2]
    v = ref_resolve(e[1] if k == 'in' else e[2], doc)
    if v is MISSING:
        raise Untyped()          # compared field must be present
    if k == 'in':
        items = e[2]
        if not (isnum(v) or isinstance(v, str)):
            raise Untyped()
        if any((isnum(v)) != isnum(x) for x in items):
            raise Untyped()
        r = any((float(v) == float(x)) if isnum(v) else (v == x) for x in items)
        return r if e[3] else not r
    op, lit = e[1], e[3][1]
    if op in ('==', '!='):
        if lit is None:
            r = v is None
        elif isinstance(lit, bool):
            if not isinstance(v, bool):
                raise Untyped()
            r = v == lit
        elif isnum(lit):
            if not isnum(v):
                raise Untyped()
            r = float(v) == float(lit)
        else:
            if not isinstance(v, str):
                raise Untyped()
            r = v == lit
        return r if op == '==' else not r
    if op in ('<', '<=', '>', '>='):
        if isnum(lit) and isnum(v):
            a, b = float(v), float(lit)
        elif isinstance(lit, str) and isinstance(v, str):
            a, b = v.encode('utf-8'), lit.encode('utf-8')
        else:
            raise Untyped()
        return {'<': a < b, '<=': a <= b, '>': a > b, '>=': a >= b}[op]
    if not (isinstance(v, str) and isinstance(lit, str)):
        raise Untyped()
    if op == 'CONTAINS':
        return lit in v
    if op == 'STARTS_WITH':
        return v.startswith(lit)
    if op == 'ENDS_WITH':
        return v.endswith(lit)
    try:
        return re.search(lit, v) is not None
    except re.error:
        raise Untyped()
