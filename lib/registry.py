"""property id -> check function(tier, seed, replay) -> exit status"""
import props_store as ps
import props_filter as pf
import props_quant as pq
import props_dist as pd
import props_search as psr
import props_lsh as pl
import props_rest_path as prp
import props_alias as pa
import props_dump as pdu
import props_rest as prest
import props_corrupt as pco
import props_conc as pcc

NOTE_STORE = ('theorems are about the tile model coq/Model/{Store,Coll}.v; the model is tied to the code by running '
              'the extracted model and the implementation on the same histories and comparing every step '
              '(storage steps, file length, index, free map, sequence number, image hash, results)')


def C01(tier, seed, replay):
    return ps.store_property('C01', tier, seed, ps.hist_C01(tier), NOTE_STORE, replay)


def C02(tier, seed, replay):
    return ps.store_property('C02', tier, seed, ps.hist_C02(tier), NOTE_STORE, replay)


def C09(tier, seed, replay):
    return ps.store_property('C09', tier, seed, ps.hist_C09(tier), NOTE_STORE, replay, snap=True)


def C16(tier, seed, replay):
    return ps.store_property('C16', tier, seed, ps.hist_C16(tier), NOTE_STORE, replay)


def C07(tier, seed, replay):
    return ps.store_property('C07', tier, seed, ps.hist_C07(tier), NOTE_STORE, replay)


def C13(tier, seed, replay):
    return pf.filter_property('C13', tier, seed, replay)


def C14(tier, seed, replay):
    return pf.filter_property('C14', tier, seed, replay)


def C15(tier, seed, replay):
    return pf.filter_property('C15', tier, seed, replay)


def C12(tier, seed, replay):
    return pq.check(tier, seed, replay)


def C06(tier, seed, replay):
    return pd.check(tier, seed, replay)


def C03(tier, seed, replay):
    return psr.check(tier, seed, replay)


def C04(tier, seed, replay):
    return pl.check('C04', tier, seed, replay)


def C05(tier, seed, replay):
    return pl.check('C05', tier, seed, replay)


def C19(tier, seed, replay):
    return prp.check(tier, seed, replay)


def C11(tier, seed, replay):
    return pa.check(tier, seed, replay)


def C20(tier, seed, replay):
    return pdu.check(tier, seed, replay)


def C17(tier, seed, replay):
    return prest.check('C17', tier, seed, replay)


def C18(tier, seed, replay):
    return prest.check('C18', tier, seed, replay)


def C08(tier, seed, replay):
    return pco.check(tier, seed, replay)


def C10(tier, seed, replay):
    return pcc.check(tier, seed, replay)


REGISTRY = {'C10': C10, 'C08': C08, 'C17': C17, 'C18': C18, 'C20': C20, 'C11': C11, 'C19': C19, 'C04': C04, 'C05': C05, 'C03': C03, 'C06': C06, 'C12': C12, 'C13': C13, 'C14': C14, 'C15': C15, 'C07': C07, 'C01': C01, 'C02': C02, 'C09': C09, 'C16': C16}
