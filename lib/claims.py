"""What MANIFEST.json claims, per property."""
HOOK_COMMITS = ['079ba0d', ]
ENGINES = [
    {'name': 'store', 'path': 'coq/Model/{Bytes,Varint,Crc,Store,Coll,Wire}.v + coq/Extract + harness/store.go + lib/store.py',
     'serves_properties': ['C01', 'C02', 'C07', 'C09', 'C16'],
     'kind_free_text': 'Coq theorems over an executable tile model of the span file; the extracted model and the Go implementation run the same histories and are compared step by step; independent Python oracles state the property on the implementation outputs'},
]
NOTES = 'See DESIGN.md. Every check rebuilds translator, Coq development, extracted oracle and Go harness from the current /repo working tree.'
STORE_NOTE = ('Trusted: Coq kernel; extraction (ExtrOcamlBasic only) and the 20-line OCaml glue; Go harness and Python driver; '
              'the hand-written model is tied to the code only by the differential correspondence run of every check '
              '(all storage steps, index, free map, sequence number, image hash, results compared after every operation). '
              'Not modelled: mmap/OS behaviour, encoding/json (options record compared as bytes), LSH index side effects.')
T_STORE = 'Coq proof (refinement of the tile model of the span file to a finite map, by induction over histories) + differential correspondence of the extracted model with the Go code'
CLAIMS = {
    'C01': {'engine': 'store', 'technique': T_STORE,
            'text': 'Theorems C01_step/C01_histories/C01_no_panic/C01_ids/C01_count/C01_new_collection (axiom-free): for every history of AddDocument, UpdateDocument, removal, GetDocument and reopen on the Coq model of collection.go/spanfile.go/freemap.go, outputs equal those of a finite map id -> (metadata, stored vector bytes); ids ascending and exactly the live ones; count their number; no panic. Byte-level round trips (7-bit code, span image incl. padding and CRC, decimal ids) are proved for all sizes below the 32-bit format limits. The model is run against the implementation on generated histories (all quantizations, ids up to 2^64-1, payload sizes around every 7-code, padding and growth boundary) and compared after every operation on storage steps, index, free map, sequence number, image hash and results; an independent Python map specification judges the implementation outputs.',
            'note': STORE_NOTE},
    'C02': {'engine': 'store', 'technique': T_STORE,
            'text': 'Theorems C02_scan/C02_reopen/C02_contents/C02_histories (axiom-free): scanning the image of any state reachable by clean operation returns exactly its tiles, so opening the file again (writable or read-only) yields the same index, free map and records, and histories with reopen inserted anywhere behave like the specification in which reopen is the identity. The override of passed options by the stored options record goes through encoding/json and is checked on the implementation (GetOptions after every reopen with conflicting options), not proved.',
            'note': STORE_NOTE},
    'C07': {'engine': 'store', 'technique': 'Coq proof (crash images = prefixes of the storage steps of the model; scan + recovery re-establish the invariant) + differential correspondence incl. snapshots taken by the verifStep hook',
            'text': 'Theorems C07_write/C07_remove/C07_add/C07_remove_doc/C07_continuation (axiom-free): WriteRecord is modelled as a list of storage steps (growth, span write, free-marking); the image after every prefix opens, recovery (free superseded duplicates, stamp a zero tail) re-establishes the full storage invariant (no record id active twice), and the contents are exactly the pre- or the post-operation contents; every continuation then follows the finite-map specification (C01/C02), so no older version can reappear. On the implementation the verifStep hook snapshots the mapped file after each storage step; each snapshot is reopened, compared with the model and continued (remove the affected id, reopen, read).',
            'note': STORE_NOTE + ' Crash granularity is one storage call, as the property states.'},
    'C09': {'engine': 'store', 'technique': T_STORE,
            'text': 'Theorems C09_chain/C09_growth/C09_grows_only_when_nothing_fits/C09_remove_in_place (axiom-free): after every history the file is the concatenation of well-formed active spans (valid CRC, < 15 bytes padding) and FREE spans, one active span per live record, walkable by the scan; a write grows the file only if no contiguous run of free tiles can hold the record. An independent Python walker checks the same grammar, the equality free map = FREE spans + tail, and the growth rule on the real file image after every operation.',
            'note': STORE_NOTE},
    'C16': {'engine': 'store', 'technique': 'Coq proof (induction over the listing loop) + differential correspondence with the Go code',
            'text': 'Theorems C16_page/C16_order/C16_tiling: the listing loop of Search, modelled in Coq, returns exactly slice [off, off+lim) of the filtered listing for all states, filters, offsets and limits (unbounded induction, axiom-free). The model is run against the implementation on generated histories with exhaustive (offset, limit) grids and all mismatches or oracle failures are reported.',
            'note': STORE_NOTE},
}
