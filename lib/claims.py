"""What MANIFEST.json claims, per property."""
HOOK_COMMITS = ['079ba0d', ]
ENGINES = [
    {'name': 'store', 'path': 'coq/Model/{Bytes,Varint,Crc,Store,Coll,Wire}.v + coq/Extract + harness/store.go + lib/store.py',
     'serves_properties': ['C01', 'C02', 'C09', 'C16'],
     'kind_free_text': 'Coq theorems over an executable tile model of the span file; the extracted model and the Go implementation run the same histories and are compared step by step; independent Python oracles state the property on the implementation outputs'},
]
NOTES = 'See DESIGN.md. Every check rebuilds translator, Coq development, extracted oracle and Go harness from the current /repo working tree.'
STORE_NOTE = ('Trusted: Coq kernel; extraction (ExtrOcamlBasic only) and the 20-line OCaml glue; Go harness and Python driver; '
              'the hand-written model is tied to the code only by the differential correspondence run of every check '
              '(all storage steps, index, free map, sequence number, image hash, results compared after every operation). '
              'Not modelled: mmap/OS behaviour, encoding/json (options record compared as bytes), LSH index side effects.')
CLAIMS = {
    'C16': {'engine': 'store', 'technique': 'Coq proof (induction over the listing loop) + differential correspondence with the Go code',
            'text': 'Theorems C16_page/C16_order/C16_tiling: the listing loop of Search, modelled in Coq, returns exactly slice [off, off+lim) of the filtered listing for all states, filters, offsets and limits (unbounded induction, axiom-free). The model is run against the implementation on generated histories with exhaustive (offset, limit) grids and all mismatches or oracle failures are reported.',
            'note': STORE_NOTE},
}
