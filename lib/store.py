"""Storage engine: histories on SpanFile / Collection, run on the implementation (Go harness)
and on the extracted Coq model; line-by-line diff; independent spec oracles."""
import json, os, random, struct
from common import *

QS = (4, 8, 16, 32, 64)

# ---------------------------------------------------------------- payloads

def gen_payload(seed, n):
    return bytes(((seed * 31 + i * 7 + i // 251) % 256) for i in range(n))


class P:
    """payload: explicit bytes or (seed, len) generated"""
    def __init__(self, data=None, seed=None, n=None):
        self.data, self.seed, self.n = data, seed, n

    def bytes(self):
        return self.data if self.data is not None else gen_payload(self.seed, self.n)

    def toks(self):
        if self.data is not None:
            return [0, len(self.data)] + list(self.data)
        return [1, self.seed, self.n]

    def js(self):
        return {'hex': self.data.hex()} if self.data is not None else {'seed': self.seed, 'len': self.n}

    @staticmethod
    def from_js(j):
        return P(data=bytes.fromhex(j['hex'])) if 'hex' in j else P(seed=j['seed'], n=j['len'])


def hash_bytes(b):
    h = 0
    for x in b:
        h = (h * 257 + x + 1) % 4294967291
    return h


def vec_size(q, dim):
    return {4: (dim + 1) // 2, 8: dim, 16: dim * 2, 32: dim * 4, 64: dim * 8}[q]


def random_vec_bytes(rng, q, dim):
    """stored bytes of a random on-grid vector (finite for 32/64)"""
    if q == 64:
        out = b''
        for _ in range(dim):
            x = rng.choice([0.0, 1.0, -1.0, 0.5, rng.uniform(-1, 1), rng.uniform(-1e3, 1e3), float(rng.randint(-5, 5))])
            out += struct.pack('>d', x)
        return out
    if q == 32:
        out = b''
        for _ in range(dim):
            x = rng.choice([0.0, 1.0, -1.0, 0.25, rng.uniform(-1, 1), float(rng.randint(-5, 5))])
            out += struct.pack('>f', x)
        return out
    if q == 16:
        return b''.join(struct.pack('>H', rng.randrange(65536)) for _ in range(dim))
    if q == 8:
        return bytes(rng.randrange(256) for _ in range(dim))
    b = bytearray(vec_size(4, dim))
    for i in range(dim):
        k = rng.randrange(16)
        if i % 2 == 0:
            b[i // 2] = k << 4
        else:
            b[i // 2] |= k
    return bytes(b)


# ---------------------------------------------------------------- operations

MUT = (10, 11, 20, 21, 22, 30, 40, 41, 50)


def has_state(o):
    """a STATE op follows every mutating op, except a write attempted through a read-only collection (it faults; what
    the handle keeps in memory afterwards is not compared)"""
    return o['op'] in MUT and not o.get('ro') and not o.get('nostate')


def op_toks(o):
    c = o['op']
    if c == 40:
        return [40, o['dim'], o['q'], o['metric'], o.get('exp', 0), len(o['json'])] + list(o['json'])
    if c == 41:
        return [41]
    if c == 10:
        t = [10, len(o['rid'])] + list(o['rid']) + [len(o['streams'])]
        for sid, p in o['streams']:
            t += [sid] + p.toks()
        return t + [o.get('exp', 0)]
    if c in (11, 12):
        return [c, len(o['rid'])] + list(o['rid'])
    if c == 20:
        return [20, o['id']] + o['vec'].toks() + o['meta'].toks() + [o.get('exp', 0)]
    if c == 21:
        return [21, o['id']] + o['meta'].toks() + [o.get('exp', 0)]
    if c in (22, 23):
        return [c, o['id']]
    if c == 30:
        return [30, o.get('mode', 1), o.get('dim', 0), o.get('q', 0), o.get('metric', 0)]
    if c in (24, 25, 31, 32):
        return [c]
    if c == 26:
        return [26, o['fk'], o['fa'], o['fb'], o['off'], o['lim']]
    if c == 50:
        return [50, o['j']] + op_toks(o['inner'])
    if c == 60:
        return [60, o.get('mode', 1), o.get('coll', 1), len(o['patches'])] + [x for p in o['patches'] for x in p]
    raise ValueError(c)


def render(ops, with_state=True):
    """ops -> token text. A STATE op (31) is inserted after every mutating op."""
    t = [1]
    for o in ops:
        t += op_toks(o)
        if with_state and has_state(o):
            t += [31]
    return ' '.join(map(str, t)) + '\n'


def op_to_js(o):
    d = dict(o)
    for k in ('vec', 'meta'):
        if k in d:
            d[k] = d[k].js()
    if 'streams' in d:
        d['streams'] = [[sid, p.js()] for sid, p in d['streams']]
    for k in ('rid', 'json'):
        if k in d:
            d[k] = d[k].hex()
    if 'inner' in d:
        d['inner'] = op_to_js(d['inner'])
    return d


def op_from_js(d):
    d = dict(d)
    for k in ('vec', 'meta'):
        if k in d:
            d[k] = P.from_js(d[k])
    if 'streams' in d:
        d['streams'] = [(sid, P.from_js(p)) for sid, p in d['streams']]
    for k in ('rid', 'json'):
        if k in d:
            d[k] = bytes.fromhex(d[k])
    if 'inner' in d:
        d['inner'] = op_from_js(d['inner'])
    return d


def ops_to_js(ops):
    return [op_to_js(o) for o in ops]


def ops_from_js(js):
    return [op_from_js(d) for d in js]


def rebase_ops(ops, path):
    """recorded histories carry the options record of the file they were recorded on; the implementation
    writes the *current* path into that record, so rewrite it (same length by construction of data_path)."""
    out = []
    for o in ops:
        if o.get('op') == 40 and 'json' in o:
            o = dict(o, json=options_json(path, o['metric'], o['dim'], o['q']))
        out.append(o)
    return out


def options_json(path, metric, dim, q):
    return ('{"name":%s,"distance_method":%d,"dimension_count":%d,"quantization":%d}'
            % (json.dumps(path), metric, dim, q)).encode()


SIZE_CLASSES = [0, 1, 2, 5, 17, 40, 100, 110, 117, 118, 119, 120, 121, 122, 123, 124, 125, 126, 127, 128, 129, 130,
                200, 300, 1000, 3000, 4000, 4050, 4090, 4096, 4100, 5000, 9000, 16370, 16380, 16381, 16382, 16383,
                16384, 16385, 16390, 20000]


def pick_size(rng, sizes_seen, big):
    r = rng.random()
    if sizes_seen and r < 0.45:
        # aim at the remainder cases: reuse a seen size minus 0..20 (or plus a little)
        return max(0, rng.choice(sizes_seen) + rng.choice([0, 0, -1, -2, -3, -7, -8, -13, -14, -15, -16, -17, -20, -30, 1, 5]))
    if r < 0.85:
        return rng.choice(SIZE_CLASSES[:25] if not big else SIZE_CLASSES)
    return rng.randrange(0, 600)


def gen_coll_history(rng, path, nops, big=False, reopen=0.05, ids=None, q=None, dim=None, metric=None):
    q = q or rng.choice(QS)
    dim = dim or rng.randint(1, 9)
    metric = rng.randint(0, 1) if metric is None else metric
    ops = [{'op': 40, 'dim': dim, 'q': q, 'metric': metric, 'json': options_json(path, metric, dim, q)}]
    pool = ids or [rng.choice([0, 1, 7, 9, 10, 99, 100, 12345, 2**32 - 1, 2**32, 2**63, 2**64 - 1, rng.randrange(2**64)]) for _ in range(rng.randint(1, 8))]
    live = set()
    sizes = []
    seedc = [rng.randrange(1, 10**6)]

    nops_done = [0]

    cur_len = {}

    def meta(id_=None, same=False):
        n = pick_size(rng, sizes, big)
        if same and id_ in cur_len:
            n = cur_len[id_]        # an update that keeps the length of the stored metadata (candidates for in-place shortcuts)
        elif id_ is not None and rng.random() < 0.10:
            # aim a record at the growth quantum: span size = 4096 - d, d in 0..16 (remainders 0, 1..14, 15, 16 after a growth)
            import chain
            d = rng.randint(0, 16)
            seq_guess = 2 + nops_done[0]
            base = chain.record_size(seq_guess, len(str(id_)), [0, vec_size(q, dim)])
            for cand in range(3900, 4200):
                if chain.record_size(seq_guess, len(str(id_)), [cand, vec_size(q, dim)]) == 4096 - d:
                    n = cand
                    break
        sizes.append(n)
        seedc[0] += 1
        if n <= 40 and rng.random() < 0.5:
            return P(data=bytes(rng.randrange(256) for _ in range(n)))
        return P(seed=seedc[0], n=n)

    ro = False

    def reopen_op(mode):
        o = {'op': 30, 'mode': mode}
        if rng.random() < 0.5:       # conflicting options must be ignored
            o.update({'dim': rng.randint(0, 12), 'q': rng.choice([0, 4, 8, 16, 32, 64]), 'metric': rng.randint(0, 1)})
        return o

    for _ in range(nops):
        r = rng.random()
        id_ = rng.choice(pool)
        if ro:
            # read-only mapping: reads only, then back to a writable mode
            if r < 0.3:
                ops.append(reopen_op(rng.choice([0, 1])))
                ro = False
            elif r < 0.45:
                # a write attempted through the read-only collection: refused, nothing changes (also after the next reopen)
                k = rng.choice([20, 21, 22])
                o = {'op': k, 'id': id_, 'ro': True}
                if k == 20:
                    o.update({'vec': P(data=random_vec_bytes(rng, q, dim)), 'meta': P(seed=rng.randrange(10**6), n=rng.choice([0, 5, 40, 6000]))})
                elif k == 21:
                    o.update({'meta': P(seed=rng.randrange(10**6), n=cur_len.get(id_, 7) if rng.random() < 0.5 else rng.choice([3, 50]))})
                ops.append(o)
            elif r < 0.6:
                ops.append({'op': 23, 'id': id_})
            elif r < 0.75:
                ops.append({'op': 24})
            elif r < 0.85:
                ops.append({'op': 25})
            else:
                ops.append({'op': 32})
            continue
        if r < 0.34 or not live:
            ops.append({'op': 20, 'id': id_, 'vec': P(data=random_vec_bytes(rng, q, dim)), 'meta': meta(id_, same=rng.random() < 0.15)})
            live.add(id_)
            cur_len[id_] = len(ops[-1]['meta'].bytes())
            nops_done[0] += 1
        elif r < 0.48:
            ops.append({'op': 21, 'id': id_, 'meta': meta(id_, same=rng.random() < 0.35)})
            if id_ in live:
                cur_len[id_] = len(ops[-1]['meta'].bytes())
            nops_done[0] += 1
        elif r < 0.66:
            if rng.random() < 0.15 and live:
                for x in sorted(live):      # delete all, then refill
                    ops.append({'op': 22, 'id': x})
                live.clear()
                cur_len.clear()
            else:
                ops.append({'op': 22, 'id': id_})
                live.discard(id_)
                cur_len.pop(id_, None)
        elif r < 0.80:
            ops.append({'op': 23, 'id': id_})
        elif r < 0.85:
            ops.append({'op': 24})
        elif r < 0.88:
            ops.append({'op': 25})
        elif r < 0.93:
            fk = rng.choice([0, 0, 1, 2, 3])
            fa = rng.randint(1, 4)
            ops.append({'op': 26, 'fk': fk, 'fa': fa, 'fb': rng.randrange(fa), 'off': rng.choice([0, 0, 1, 2, 3, 50]), 'lim': rng.choice([0, 0, 1, 2, 5, 100])})
        elif r < 0.93 + reopen:
            mode = rng.choice([0, 1, 1, 2])
            ops.append(reopen_op(mode))
            ro = mode == 2
        else:
            ops.append({'op': 32})
    if ro:
        ops.append(reopen_op(1))
    ops += [{'op': 24}, {'op': 25}, {'op': 32}, reopen_op(rng.choice([0, 1, 2])), {'op': 32}]
    for x in sorted(set(pool)):
        ops.append({'op': 23, 'id': x})
    return ops


BOUNDARY_SIZES = [2097150, 2097151, 2097152]    # 2^21-1 = 0x1fffff: the 3-byte/4-byte step of the 7-bit length code


def gen_boundary_history(rng, path, n):
    """a short collection history around a payload whose length sits on a length-code boundary that the size
    classes cannot reach: written, read, overwritten at the same size, followed by a neighbour, reopened, removed"""
    q, dim, metric = 8, 2, rng.randint(0, 1)
    ops = [{'op': 40, 'dim': dim, 'q': q, 'metric': metric, 'json': options_json(path, metric, dim, q)}]
    v = lambda: P(data=random_vec_bytes(rng, q, dim))
    a, b = rng.choice([5, 77, 2**64 - 1]), 6
    s = rng.randrange(1, 10**6)
    ops += [{'op': 20, 'id': a, 'vec': v(), 'meta': P(seed=s, n=n)}, {'op': 23, 'id': a},
            {'op': 20, 'id': b, 'vec': v(), 'meta': P(seed=s + 1, n=rng.choice([10, 126, 127, 128]))},
            {'op': 23, 'id': a}, {'op': 25}]
    if rng.random() < 0.5:
        ops += [{'op': 21, 'id': a, 'meta': P(seed=s + 2, n=n)}, {'op': 23, 'id': a}]
    ops += [{'op': 30, 'mode': rng.choice([0, 1])}, {'op': 25}, {'op': 23, 'id': a}, {'op': 23, 'id': b}, {'op': 24},
            {'op': 22, 'id': a}, {'op': 23, 'id': b}, {'op': 20, 'id': a, 'vec': v(), 'meta': P(seed=s + 3, n=n - rng.choice([0, 1, 20]))},
            {'op': 30, 'mode': 1}, {'op': 25}, {'op': 23, 'id': a}, {'op': 23, 'id': b}, {'op': 32}]
    return ops


def gen_boundary_minimal(rng, path, n):
    """one payload on the length-code boundary: written, read, reopened, read (short enough for the extracted model)"""
    q, dim, metric = 8, 2, 0
    return [{'op': 40, 'dim': dim, 'q': q, 'metric': metric, 'json': options_json(path, metric, dim, q)},
            {'op': 20, 'id': 5, 'vec': P(data=random_vec_bytes(rng, q, dim)), 'meta': P(seed=rng.randrange(1, 10**6), n=n)},
            {'op': 23, 'id': 5}, {'op': 30, 'mode': 1}, {'op': 23, 'id': 5}]


def ro_consistent(ops):
    """every operation marked as an attempt on a read-only collection really follows a read-only reopen (a shrunk
    history that lost the reopen is not a candidate)"""
    ro = False
    for o in ops:
        if o['op'] == 30:
            ro = o.get('mode') == 2
        elif o['op'] in (40, 50, 60):
            ro = o['op'] == 60 and o.get('mode') == 2
        if o.get('ro') and not ro:
            return False
        if not o.get('ro') and ro and o['op'] in (20, 21, 22, 10, 11):
            return False
    return True


def is_big(ops):
    return any(isinstance(o.get(k), P) and (o[k].n or 0) > 300000 for o in ops for k in ('meta', 'vec'))


def gen_sf_history(rng, nops, big=False):
    """raw span-file histories: arbitrary record ids, 0..3 streams"""
    ops = [{'op': 41}]
    rids = [bytes(rng.choice(b'abcxyz019 _') for _ in range(rng.choice([0, 1, 1, 2, 3, 8, 126, 127, 128, 130]))) for _ in range(rng.randint(1, 6))]
    sizes = []
    seedc = [rng.randrange(1, 10**6)]
    for _ in range(nops):
        r = rng.random()
        rid = rng.choice(rids)
        if r < 0.5:
            ss = []
            for i in range(rng.choice([0, 1, 1, 2, 2, 3])):
                n = pick_size(rng, sizes, big)
                sizes.append(n)
                seedc[0] += 1
                ss.append((rng.choice([0, 1, 2, 255]), P(seed=seedc[0], n=n)))
            ops.append({'op': 10, 'rid': rid, 'streams': ss})
        elif r < 0.7:
            ops.append({'op': 11, 'rid': rid})
        elif r < 0.9:
            ops.append({'op': 12, 'rid': rid})
        elif r < 0.95:
            ops.append({'op': 30})
        else:
            ops.append({'op': 32})
    ops += [{'op': 32}, {'op': 30}, {'op': 32}]
    for rid in rids:
        ops.append({'op': 12, 'rid': rid})
    return ops


# ---------------------------------------------------------------- running and comparing

def data_path(tag):
    d = os.path.join(WORK, 'data')
    os.makedirs(d, exist_ok=True)
    # fixed-length name: the path is part of the options record, so its length decides the file layout
    return os.path.join(d, 'c%s_%05d.dat' % (tag, os.getpid() % 100000))


def strip_growth_lines(g):
    """lines '52 n' carry the growth amount of an interrupted operation (op 50); they are not part of the comparison"""
    return [l for l in g if not l.startswith('52 ')]


def with_observed_growth(ops, g):
    """the amount by which the file grows is an oracle argument of the model (any amount >= the record): feed the model
    the amounts the implementation chose, so that another growth policy is not a divergence (the chain oracle still
    checks that the file grows only when nothing fits and by at least the record)"""
    own = line_owner(ops)
    out = [dict(o) for o in ops]
    # interrupted operations: the k-th '52 n' line belongs to the k-th op 50
    grown = [int(l.split()[1]) for l in g if l.startswith('52 ')]
    k = 0
    for o in out:
        if o['op'] == 50:
            if k < len(grown) and grown[k] > 0:
                o['inner'] = dict(o['inner'], exp=grown[k])
            k += 1
    g = strip_growth_lines(g)
    for i, ln in enumerate(g):
        f = ln.split()
        if i < len(own) and len(f) > 3 and f[0] in ('10', '20', '21', '40') and f[1] == '0':
            try:
                n = int(f[2])
                steps = [f[3 + 3 * k:6 + 3 * k] for k in range(n)]
            except ValueError:
                continue
            for st in steps:
                if len(st) == 3 and st[0] == '1' and out[own[i]]['op'] == int(f[0]):
                    out[own[i]]['exp'] = int(st[1])
    return out


def run_both(ops, path):
    text = render(ops)
    g, grc, gerr = run_harness(['store', path], text)
    m, mrc, merr = run_oracle(render(with_observed_growth(ops, g)))
    return text, strip_growth_lines(g), grc, gerr, m


def first_diff(g, m):
    for i in range(max(len(g), len(m))):
        a = g[i] if i < len(g) else '<missing>'
        b = m[i] if i < len(m) else '<missing>'
        if a != b:
            return i, a, b
    return None


def line_owner(ops):
    """map output line number -> op index (STATE lines belong to the mutating op before them)"""
    own = []
    for i, o in enumerate(ops):
        own.append(i)
        if has_state(o):
            own.append(i)
    return own


def spec_check(ops, g):
    """independent oracle for C01/C16 on collection histories: a Python dict as the specification.
    returns None or a description of the first deviation."""
    spec = {}
    ignore = set()
    own = line_owner(ops)
    k = 0
    for i, o in enumerate(ops):
        if k >= len(g):
            return {'op_index': i, 'kind': 'died', 'what': 'implementation produced no output for this operation (process died?)'}
        f = list(map(int, g[k].split()))
        c = o['op']
        k += 2 if has_state(o) else 1
        if f[0] != c:
            return {'op_index': i, 'kind': 'died', 'what': 'output desynchronised', 'line': g[k - 1]}
        if o.get('ro') and c in (20, 21, 22):
            # a write through a collection opened read-only is refused (the mapping faults) and changes nothing
            # refused (code 9 after canonicalisation: fault or error) — never acknowledged
            if o['id'] not in ignore and f[1] == 0:
                return {'op_index': i, 'kind': {20: 'add', 21: 'update', 22: 'remove'}[c],
                        'what': 'a write through a collection opened read-only was answered %s (it must be refused and change nothing)' % f[1:], 'got': f}
            continue
        if c not in (24, 25, 31, 32) and len(f) == 2 and f[1] == 2:
            return {'op_index': i, 'kind': 'panic', 'what': 'operation panicked', 'line': ' '.join(map(str, f))}
        if c in (20, 21, 22, 23) and o['id'] in ignore:
            continue
        if c == 50 and o['inner'].get('id') in ignore:
            continue
        if c in (24, 25, 26) and ignore:
            continue
        if c == 20:
            spec[o['id']] = (o['meta'].bytes(), o['vec'].bytes())
            if f[1] != 0:
                return {'op_index': i, 'kind': 'add', 'what': 'AddDocument failed'}
        elif c == 21:
            if o['id'] in spec:
                if f[1] != 0:
                    return {'op_index': i, 'kind': 'update', 'what': 'UpdateDocument of a live id failed'}
                spec[o['id']] = (o['meta'].bytes(), spec[o['id']][1])
            elif f[1] != 1:
                return {'op_index': i, 'kind': 'update', 'what': 'UpdateDocument of a dead id did not fail'}
        elif c == 22:
            if o['id'] in spec:
                if f[1] != 0:
                    return {'op_index': i, 'kind': 'remove', 'what': 'removal of a live id failed'}
                del spec[o['id']]
            elif f[1] != 1:
                return {'op_index': i, 'kind': 'remove', 'what': 'removal of a dead id did not fail'}
        elif c == 23:
            if o['id'] in spec:
                md, vb = spec[o['id']]
                want = [23, 0, len(md), hash_bytes(md), len(vb), hash_bytes(vb)]
                if f != want:
                    return {'op_index': i, 'kind': 'get', 'what': 'GetDocument differs from the last write', 'got': f, 'want': want}
            elif f[1] != 1:
                return {'op_index': i, 'kind': 'get', 'what': 'GetDocument of a dead id did not fail', 'got': f}
        elif c == 24:
            want = [24, len(spec)] + sorted(spec)
            if f != want:
                return {'op_index': i, 'kind': 'ids', 'what': 'GetAllIDs differs from the live ids ascending', 'got': f, 'want': want}
        elif c == 25:
            if f != [25, len(spec)]:
                return {'op_index': i, 'kind': 'count', 'what': 'GetDocumentCount differs', 'got': f, 'want': [25, len(spec)]}
        elif c == 26:
            full = [(id_, spec[id_][0]) for id_ in sorted(spec, key=lambda x: str(x))]
            fk, fa, fb = o['fk'] % 16, o['fa'], o['fb']

            def acc(id_, md):
                if fk == 1:
                    return id_ % fa == fb
                if fk == 2:
                    return len(md) % fa == fb
                if fk == 3:
                    return (md[0] if md else 0) % fa == fb
                return True
            full = [d for d in full if acc(*d)]
            page = full[o['off']:] if o['lim'] == 0 else full[o['off']:o['off'] + o['lim']]
            want = [26, 0, len(page)]
            for id_, md in page:
                want += [id_, len(md), hash_bytes(md)]
            if f != want:
                return {'op_index': i, 'kind': 'listing', 'what': 'listing page is not the slice [offset, offset+limit) of the filtered listing', 'got': f, 'want': want}
        elif c == 30:
            if f[1] != 0:
                return {'op_index': i, 'kind': 'reopen', 'what': 'reopen failed or options changed', 'got': f}
        elif c == 50:
            if f[1] != 0:
                return {'op_index': i, 'kind': 'crash', 'what': 'reopening the crash image failed', 'got': f}
            inner = o['inner']
            if inner['op'] in (20, 21, 22):
                id_ = inner['id']
                pre = spec.get(id_)
                if inner['op'] == 20:
                    post = (inner['meta'].bytes(), inner['vec'].bytes())
                elif inner['op'] == 21:
                    post = (inner['meta'].bytes(), pre[1]) if pre else None
                else:
                    post = None
                # the generator reads the affected id next: that read decides pre or post
                nxt = ops[i + 1] if i + 1 < len(ops) else None
                if nxt is not None and nxt['op'] == 23 and nxt['id'] == id_ and k < len(g):
                    f2 = list(map(int, g[k].split()))

                    def enc(v):
                        return [23, 1] if v is None else [23, 0, len(v[0]), hash_bytes(v[0]), len(v[1]), hash_bytes(v[1])]
                    if f2 == enc(post):
                        if post is None:
                            spec.pop(id_, None)
                        else:
                            spec[id_] = post
                    elif f2 == enc(pre):
                        pass
                    else:
                        return {'op_index': i, 'kind': 'crash', 'what': 'after the crash the affected document is neither entirely in its pre-operation nor in its post-operation state', 'got': f2, 'pre': enc(pre), 'post': enc(post)}
                else:
                    ignore.add(id_)     # outcome not observed: this id is no longer checked
                    spec.pop(id_, None)
    return None


def shrink(ops, fails, budget=60):
    """delta-debugging over the op list (first op is the constructor and is kept)"""
    head, body = ops[:1], ops[1:]
    n = 2
    runs = 0
    while len(body) >= 1 and runs < budget:
        chunk = max(1, len(body) // n)
        reduced = False
        for s in range(0, len(body), chunk):
            cand = body[:s] + body[s + chunk:]
            runs += 1
            if fails(head + cand):
                body = cand
                n = max(n - 1, 2)
                reduced = True
                break
            if runs >= budget:
                break
        if not reduced:
            if chunk == 1:
                break
            n = min(n * 2, len(body))
    return head + body
